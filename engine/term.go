package main

// Symbolic terms: booleans and fixed-width bit-vectors (width 1..64), with an
// eager constant-folding simplifier so that concrete code runs concretely.

import (
	"fmt"
	"math/bits"
	"strings"
)

type Op uint8

const (
	OpConst Op = iota
	OpVar
	OpNot
	OpAnd
	OpOr
	OpIte
	OpEq
	OpAdd
	OpSub
	OpMul
	OpUDiv
	OpURem
	OpSDiv
	OpSRem
	OpBAnd
	OpBOr
	OpBXor
	OpBNot
	OpNeg
	OpShl
	OpLShr
	OpAShr
	OpULt
	OpULe
	OpSLt
	OpSLe
	OpExtract // args[0], hi, lo
	OpZExt
	OpSExt
	OpConcat
	OpApp // uninterpreted function application: name, args; result width w
)

var opNames = map[Op]string{
	OpNot: "not", OpAnd: "and", OpOr: "or", OpIte: "ite", OpEq: "=",
	OpAdd: "bvadd", OpSub: "bvsub", OpMul: "bvmul", OpUDiv: "bvudiv", OpURem: "bvurem",
	OpSDiv: "bvsdiv", OpSRem: "bvsrem", OpBAnd: "bvand", OpBOr: "bvor", OpBXor: "bvxor",
	OpBNot: "bvnot", OpNeg: "bvneg", OpShl: "bvshl", OpLShr: "bvlshr", OpAShr: "bvashr",
	OpULt: "bvult", OpULe: "bvule", OpSLt: "bvslt", OpSLe: "bvsle", OpConcat: "concat",
}

// Term is an immutable symbolic expression. w==0 means Bool.
type Term struct {
	op     Op
	w      int
	args   []*Term
	val    uint64 // OpConst: value (masked); bool: 0/1
	name   string // OpVar / OpApp
	hi, lo int    // OpExtract
	id     int    // unique per process (for printing / memo)
	depth  int
}

var termIDCounter int64

func mask(w int) uint64 {
	if w >= 64 {
		return ^uint64(0)
	}
	return (uint64(1) << uint(w)) - 1
}

func (t *Term) IsConst() bool { return t.op == OpConst }
func (t *Term) IsBool() bool  { return t.w == 0 }

var (
	tTrue  = &Term{op: OpConst, w: 0, val: 1, id: -1}
	tFalse = &Term{op: OpConst, w: 0, val: 0, id: -2}
)

func mkBool(b bool) *Term {
	if b {
		return tTrue
	}
	return tFalse
}

type termFactory struct {
	next int
}

// All term constructors are methods-free functions using a global atomic-free
// counter per goroutine would complicate things; ids are only used for
// printing inside one solver session, so we draw them from a per-exec factory
// that is installed in a goroutine-local way: simply passed explicitly.
// To keep call sites light, ids are assigned lazily by the printer instead.

func mkConst(w int, v uint64) *Term {
	if w == 0 {
		return mkBool(v != 0)
	}
	return &Term{op: OpConst, w: w, val: v & mask(w)}
}

func mkVar(name string, w int) *Term {
	return &Term{op: OpVar, w: w, name: name}
}

func newTerm(op Op, w int, args ...*Term) *Term {
	d := 0
	for _, a := range args {
		if a.depth > d {
			d = a.depth
		}
	}
	return &Term{op: op, w: w, args: args, depth: d + 1}
}

func signExt(v uint64, w int) int64 {
	if w >= 64 {
		return int64(v)
	}
	sh := uint(64 - w)
	return int64(v<<sh) >> sh
}

// ---- boolean constructors ----

func mkNot(a *Term) *Term {
	if a.w != 0 {
		panic("mkNot: non-bool")
	}
	if a.IsConst() {
		return mkBool(a.val == 0)
	}
	if a.op == OpNot {
		return a.args[0]
	}
	return newTerm(OpNot, 0, a)
}

func mkAnd(a, b *Term) *Term {
	if a.IsConst() {
		if a.val == 0 {
			return tFalse
		}
		return b
	}
	if b.IsConst() {
		if b.val == 0 {
			return tFalse
		}
		return a
	}
	if a == b {
		return a
	}
	return newTerm(OpAnd, 0, a, b)
}

func mkOr(a, b *Term) *Term {
	if a.IsConst() {
		if a.val != 0 {
			return tTrue
		}
		return b
	}
	if b.IsConst() {
		if b.val != 0 {
			return tTrue
		}
		return a
	}
	if a == b {
		return a
	}
	return newTerm(OpOr, 0, a, b)
}

func mkIte(c, a, b *Term) *Term {
	if c.IsConst() {
		if c.val != 0 {
			return a
		}
		return b
	}
	if a == b {
		return a
	}
	if a.w != b.w {
		panic(fmt.Sprintf("mkIte: width mismatch %d %d", a.w, b.w))
	}
	if a.IsConst() && b.IsConst() && a.val == b.val {
		return a
	}
	if a.w == 0 && a.IsConst() && b.IsConst() {
		if a.val != 0 { // ite(c, true, false)
			return c
		}
		return mkNot(c)
	}
	return newTerm(OpIte, a.w, c, a, b)
}

func mkEq(a, b *Term) *Term {
	if a.w != b.w {
		panic(fmt.Sprintf("mkEq: width mismatch %d vs %d", a.w, b.w))
	}
	if a == b {
		return tTrue
	}
	if a.IsConst() && b.IsConst() {
		return mkBool(a.val == b.val)
	}
	if a.w == 0 {
		if a.IsConst() {
			if a.val != 0 {
				return b
			}
			return mkNot(b)
		}
		if b.IsConst() {
			if b.val != 0 {
				return a
			}
			return mkNot(a)
		}
	}
	// zext(x) == const where const does not fit -> false; where fits -> x == const'
	if b.IsConst() && a.op == OpZExt {
		in := a.args[0]
		if b.val > mask(in.w) {
			return tFalse
		}
		return mkEq(in, mkConst(in.w, b.val))
	}
	if a.IsConst() && b.op == OpZExt {
		return mkEq(b, a)
	}
	return newTerm(OpEq, 0, a, b)
}

// ---- bit-vector constructors ----

func mkBin(op Op, a, b *Term) *Term {
	if a.w != b.w || a.w == 0 {
		panic(fmt.Sprintf("mkBin %v: width mismatch %d vs %d", opNames[op], a.w, b.w))
	}
	w := a.w
	if a.IsConst() && b.IsConst() {
		x, y := a.val, b.val
		switch op {
		case OpAdd:
			return mkConst(w, x+y)
		case OpSub:
			return mkConst(w, x-y)
		case OpMul:
			return mkConst(w, x*y)
		case OpUDiv:
			if y == 0 {
				return mkConst(w, mask(w))
			}
			return mkConst(w, x/y)
		case OpURem:
			if y == 0 {
				return mkConst(w, x)
			}
			return mkConst(w, x%y)
		case OpSDiv:
			if y == 0 {
				break
			}
			sx, sy := signExt(x, w), signExt(y, w)
			if sy == -1 {
				return mkConst(w, uint64(-sx))
			}
			return mkConst(w, uint64(sx/sy))
		case OpSRem:
			if y == 0 {
				break
			}
			sx, sy := signExt(x, w), signExt(y, w)
			if sy == -1 {
				return mkConst(w, 0)
			}
			return mkConst(w, uint64(sx%sy))
		case OpBAnd:
			return mkConst(w, x&y)
		case OpBOr:
			return mkConst(w, x|y)
		case OpBXor:
			return mkConst(w, x^y)
		case OpShl:
			if y >= uint64(w) {
				return mkConst(w, 0)
			}
			return mkConst(w, x<<y)
		case OpLShr:
			if y >= uint64(w) {
				return mkConst(w, 0)
			}
			return mkConst(w, x>>y)
		case OpAShr:
			sx := signExt(x, w)
			if y >= uint64(w) {
				y = uint64(w - 1)
			}
			return mkConst(w, uint64(sx>>y))
		}
	}
	// narrowing: division/remainder/multiplication of provably small values is
	// done at a narrow width (64-bit bvsdiv/bvmul by constants stall bit-blasting)
	if w > 8 && (op == OpUDiv || op == OpURem || op == OpSDiv || op == OpSRem || op == OpMul) {
		ua, oka := upperBound(a)
		ub, okb := upperBound(b)
		if oka && okb {
			for _, k := range []int{8, 16, 32} {
				if k >= w {
					break
				}
				lim := uint64(1) << uint(k-1)
				fits := ua < lim && ub < lim
				if op == OpMul {
					fits = fits && ua*ub < lim
				}
				if fits {
					nop := op
					if op == OpSDiv {
						nop = OpUDiv
					} else if op == OpSRem {
						nop = OpURem
					}
					if (nop == OpUDiv || nop == OpURem) && !(b.IsConst() && b.val != 0) {
						break // keep SMT semantics of division by zero at full width
					}
					return mkZExt(mkBin(nop, mkExtract(a, k-1, 0), mkExtract(b, k-1, 0)), w)
				}
			}
		}
	}
	// identities
	switch op {
	case OpAdd:
		if a.IsConst() && a.val == 0 {
			return b
		}
		if b.IsConst() && b.val == 0 {
			return a
		}
	case OpSub:
		if b.IsConst() && b.val == 0 {
			return a
		}
		if a == b {
			return mkConst(w, 0)
		}
	case OpMul:
		if a.IsConst() && a.val == 0 || b.IsConst() && b.val == 0 {
			return mkConst(w, 0)
		}
		if a.IsConst() && a.val == 1 {
			return b
		}
		if b.IsConst() && b.val == 1 {
			return a
		}
	case OpBAnd:
		if a.IsConst() && a.val == 0 || b.IsConst() && b.val == 0 {
			return mkConst(w, 0)
		}
		if a.IsConst() && a.val == mask(w) {
			return b
		}
		if b.IsConst() && b.val == mask(w) {
			return a
		}
		if a == b {
			return a
		}
	case OpBOr, OpBXor:
		if a.IsConst() && a.val == 0 {
			return b
		}
		if b.IsConst() && b.val == 0 {
			return a
		}
		if a == b {
			if op == OpBOr {
				return a
			}
			return mkConst(w, 0)
		}
	case OpShl, OpLShr, OpAShr:
		if b.IsConst() && b.val == 0 {
			return a
		}
		if a.IsConst() && a.val == 0 {
			return a
		}
		if b.IsConst() && b.val >= uint64(w) && op != OpAShr {
			return mkConst(w, 0)
		}
	}
	return newTerm(op, w, a, b)
}

func mkCmp(op Op, a, b *Term) *Term {
	if a.w != b.w || a.w == 0 {
		panic(fmt.Sprintf("mkCmp %v: width mismatch %d vs %d", opNames[op], a.w, b.w))
	}
	w := a.w
	if a.IsConst() && b.IsConst() {
		switch op {
		case OpULt:
			return mkBool(a.val < b.val)
		case OpULe:
			return mkBool(a.val <= b.val)
		case OpSLt:
			return mkBool(signExt(a.val, w) < signExt(b.val, w))
		case OpSLe:
			return mkBool(signExt(a.val, w) <= signExt(b.val, w))
		}
	}
	if a == b {
		return mkBool(op == OpULe || op == OpSLe)
	}
	// narrowing: comparisons between zero-extended values / small constants
	if w > 8 {
		ia, ib := a, b
		if a.op == OpZExt {
			ia = a.args[0]
		}
		if b.op == OpZExt {
			ib = b.args[0]
		}
		if (ia != a || ib != b) && (ia != a || a.IsConst()) && (ib != b || b.IsConst()) {
			k := 0
			if ia != a {
				k = ia.w
			}
			if ib != b && ib.w > k {
				k = ib.w
			}
			if k > 0 && k < w {
				fits := func(t, inner *Term) bool {
					if t.IsConst() {
						return t.val <= mask(k)
					}
					return inner.w <= k
				}
				if fits(a, ia) && fits(b, ib) {
					na, nb := ia, ib
					if a.IsConst() {
						na = mkConst(k, a.val)
					} else {
						na = mkZExt(ia, k)
					}
					if b.IsConst() {
						nb = mkConst(k, b.val)
					} else {
						nb = mkZExt(ib, k)
					}
					uop := op
					if op == OpSLt {
						uop = OpULt
					} else if op == OpSLe {
						uop = OpULe
					}
					return mkCmp8(uop, na, nb)
				}
			}
		}
	}
	// range reasoning on zero-extended small values
	if b.IsConst() {
		if ub, ok := upperBound(a); ok {
			switch op {
			case OpULt:
				if ub < b.val {
					return tTrue
				}
				if b.val == 0 {
					return tFalse
				}
			case OpULe:
				if ub <= b.val {
					return tTrue
				}
			case OpSLt:
				if ub < (uint64(1)<<uint(w-1)) && signExt(b.val, w) > int64(ub) {
					return tTrue
				}
				if ub < (uint64(1)<<uint(w-1)) && signExt(b.val, w) <= 0 {
					return tFalse
				}
			case OpSLe:
				if ub < (uint64(1)<<uint(w-1)) && signExt(b.val, w) >= int64(ub) {
					return tTrue
				}
				if ub < (uint64(1)<<uint(w-1)) && signExt(b.val, w) < 0 {
					return tFalse
				}
			}
		}
	}
	if a.IsConst() {
		if ub, ok := upperBound(b); ok {
			switch op {
			case OpULt: // a < b
				if a.val >= ub {
					return tFalse
				}
			case OpULe:
				if a.val == 0 {
					return tTrue
				}
				if a.val > ub {
					return tFalse
				}
			case OpSLt:
				if ub < (uint64(1)<<uint(w-1)) && signExt(a.val, w) < 0 {
					return tTrue
				}
				if ub < (uint64(1)<<uint(w-1)) && signExt(a.val, w) >= int64(ub) {
					return tFalse
				}
			case OpSLe:
				if ub < (uint64(1)<<uint(w-1)) && signExt(a.val, w) <= 0 {
					return tTrue
				}
				if ub < (uint64(1)<<uint(w-1)) && signExt(a.val, w) > int64(ub) {
					return tFalse
				}
			}
		}
	}
	return newTerm(op, 0, a, b)
}

// mkCmp8 is mkCmp without re-entering the narrowing rule.
func mkCmp8(op Op, a, b *Term) *Term {
	if a.IsConst() && b.IsConst() {
		return mkCmp(op, a, b)
	}
	if a == b {
		return mkBool(op == OpULe)
	}
	if op == OpULt && b.IsConst() && b.val == 0 {
		return tFalse
	}
	if op == OpULe && a.IsConst() && a.val == 0 {
		return tTrue
	}
	if op == OpULt && a.IsConst() && a.val == 0 {
		return mkNot(mkEq(b, mkConst(b.w, 0)))
	}
	if op == OpULe && b.IsConst() && b.val == 0 {
		return mkEq(a, mkConst(a.w, 0))
	}
	return newTerm(op, 0, a, b)
}

// upperBound returns a cheap syntactic unsigned upper bound of t.
func upperBound(t *Term) (uint64, bool) {
	switch t.op {
	case OpConst:
		return t.val, true
	case OpZExt:
		if ub, ok := upperBound(t.args[0]); ok {
			return ub, true
		}
		return mask(t.args[0].w), true
	case OpBAnd:
		ua, oka := upperBound(t.args[0])
		ub, okb := upperBound(t.args[1])
		if oka && okb {
			if ua < ub {
				return ua, true
			}
			return ub, true
		}
		if oka {
			return ua, true
		}
		if okb {
			return ub, true
		}
	case OpLShr:
		if t.args[1].IsConst() && t.args[1].val < uint64(t.w) {
			if ua, ok := upperBound(t.args[0]); ok {
				return ua >> t.args[1].val, true
			}
			return mask(t.w) >> t.args[1].val, true
		}
	case OpIte:
		ua, oka := upperBound(t.args[1])
		ub, okb := upperBound(t.args[2])
		if oka && okb {
			if ua > ub {
				return ua, true
			}
			return ub, true
		}
	case OpVar, OpApp:
		if t.w < 64 {
			return mask(t.w), true
		}
	case OpBOr, OpBXor:
		ua, oka := upperBound(t.args[0])
		ub, okb := upperBound(t.args[1])
		if oka && okb {
			m := ua
			if ub > m {
				m = ub
			}
			n := bits.Len64(m)
			if n < 64 {
				return (uint64(1) << uint(n)) - 1, true
			}
		}
	case OpShl:
		if t.args[1].IsConst() && t.args[1].val < 64 {
			if ua, ok := upperBound(t.args[0]); ok && bits.Len64(ua)+int(t.args[1].val) < t.w {
				return ua << t.args[1].val, true
			}
		}
	case OpAdd:
		ua, oka := upperBound(t.args[0])
		ub, okb := upperBound(t.args[1])
		if oka && okb && ua < 1<<62 && ub < 1<<62 && (t.w == 64 || ua+ub <= mask(t.w)) {
			return ua + ub, true
		}
	case OpUDiv:
		if ua, ok := upperBound(t.args[0]); ok && t.args[1].IsConst() && t.args[1].val != 0 {
			return ua / t.args[1].val, true
		}
	case OpURem:
		if t.args[1].IsConst() && t.args[1].val != 0 {
			return t.args[1].val - 1, true
		}
	case OpExtract:
		if t.lo == 0 {
			if ua, ok := upperBound(t.args[0]); ok && ua <= mask(t.w) {
				return ua, true
			}
		}
		if t.w < 64 {
			return mask(t.w), true
		}
	}
	return 0, false
}

func mkBNot(a *Term) *Term {
	if a.IsConst() {
		return mkConst(a.w, ^a.val)
	}
	if a.op == OpBNot {
		return a.args[0]
	}
	return newTerm(OpBNot, a.w, a)
}

func mkNeg(a *Term) *Term {
	if a.IsConst() {
		return mkConst(a.w, -a.val)
	}
	return newTerm(OpNeg, a.w, a)
}

func mkExtract(a *Term, hi, lo int) *Term {
	w := hi - lo + 1
	if lo == 0 && w == a.w {
		return a
	}
	if a.IsConst() {
		return mkConst(w, a.val>>uint(lo))
	}
	if (a.op == OpZExt || a.op == OpSExt) && hi < a.args[0].w {
		return mkExtract(a.args[0], hi, lo)
	}
	if a.op == OpZExt && lo >= a.args[0].w {
		return mkConst(w, 0)
	}
	t := newTerm(OpExtract, w, a)
	t.hi, t.lo = hi, lo
	return t
}

func mkZExt(a *Term, w int) *Term {
	if w == a.w {
		return a
	}
	if w < a.w {
		return mkExtract(a, w-1, 0)
	}
	if a.IsConst() {
		return mkConst(w, a.val)
	}
	if a.op == OpZExt {
		return mkZExt(a.args[0], w)
	}
	return newTerm(OpZExt, w, a)
}

func mkSExt(a *Term, w int) *Term {
	if w == a.w {
		return a
	}
	if w < a.w {
		return mkExtract(a, w-1, 0)
	}
	if a.IsConst() {
		return mkConst(w, uint64(signExt(a.val, a.w)))
	}
	if a.op == OpZExt { // sign bit is zero
		return mkZExt(a.args[0], w)
	}
	return newTerm(OpSExt, w, a)
}

func mkApp(name string, w int, args ...*Term) *Term {
	t := newTerm(OpApp, w, args...)
	t.name = name
	return t
}

// boolToBV converts a Bool term to a 1/0 bit-vector of width w.
func boolToBV(b *Term, w int) *Term {
	return mkIte(b, mkConst(w, 1), mkConst(w, 0))
}

// ---- evaluation under a model ----

// evalTerm evaluates t under model m (variable name -> value). ok=false when
// t contains an uninterpreted application or an unbound variable.
func evalTerm(t *Term, m map[string]uint64, memo map[*Term]uint64) (uint64, bool) {
	if t.op == OpConst {
		return t.val, true
	}
	if v, ok := memo[t]; ok {
		return v, true
	}
	var r uint64
	switch t.op {
	case OpVar:
		v, ok := m[t.name]
		if !ok {
			// unconstrained variable not in model: any value, use 0
			v = 0
		}
		r = v & mask(maxInt(t.w, 1))
		if t.w == 0 && v != 0 {
			r = 1
		}
	case OpApp:
		return 0, false
	default:
		var av [3]uint64
		for i, a := range t.args {
			v, ok := evalTerm(a, m, memo)
			if !ok {
				return 0, false
			}
			if i < 3 {
				av[i] = v
			}
		}
		x, y := av[0], av[1]
		w := 0
		if len(t.args) > 0 {
			w = t.args[0].w
		}
		switch t.op {
		case OpNot:
			r = 1 - x
		case OpAnd:
			r = x & y
		case OpOr:
			r = x | y
		case OpIte:
			if x != 0 {
				r = y
			} else {
				r = av[2]
			}
		case OpEq:
			r = b2u(x == y)
		case OpULt:
			r = b2u(x < y)
		case OpULe:
			r = b2u(x <= y)
		case OpSLt:
			r = b2u(signExt(x, w) < signExt(y, w))
		case OpSLe:
			r = b2u(signExt(x, w) <= signExt(y, w))
		case OpExtract:
			r = (x >> uint(t.lo)) & mask(t.w)
		case OpZExt:
			r = x
		case OpSExt:
			r = uint64(signExt(x, w)) & mask(t.w)
		case OpBNot:
			r = ^x & mask(t.w)
		case OpNeg:
			r = -x & mask(t.w)
		case OpConcat:
			r = (x<<uint(t.args[1].w) | y) & mask(t.w)
		default:
			c := mkBin(t.op, mkConst(w, x), mkConst(w, y))
			if !c.IsConst() {
				return 0, false
			}
			r = c.val
		}
	}
	memo[t] = r
	return r, true
}

func b2u(b bool) uint64 {
	if b {
		return 1
	}
	return 0
}

func maxInt(a, b int) int {
	if a > b {
		return a
	}
	return b
}

// ---- SMT-LIB printing ----

func sortStr(w int) string {
	if w == 0 {
		return "Bool"
	}
	return fmt.Sprintf("(_ BitVec %d)", w)
}

func constStr(t *Term) string {
	if t.w == 0 {
		if t.val != 0 {
			return "true"
		}
		return "false"
	}
	if t.w%4 == 0 {
		return fmt.Sprintf("#x%0*x", t.w/4, t.val)
	}
	return fmt.Sprintf("(_ bv%d %d)", t.val, t.w)
}

// smtPrinter emits define-funs for shared sub-terms into a solver session.
type smtPrinter struct {
	names  map[*Term]string
	byExpr map[string]string
	decls  map[string]bool
	out    *strings.Builder
	n      int
}

func newSMTPrinter() *smtPrinter {
	return &smtPrinter{names: map[*Term]string{}, byExpr: map[string]string{}, decls: map[string]bool{}, out: &strings.Builder{}}
}

// ref returns an SMT expression string denoting t, emitting any needed
// declarations/definitions into p.out first.
func (p *smtPrinter) ref(t *Term) string {
	if t.op == OpConst {
		return constStr(t)
	}
	if s, ok := p.names[t]; ok {
		return s
	}
	var s string
	switch t.op {
	case OpVar:
		if !p.decls[t.name] {
			p.decls[t.name] = true
			fmt.Fprintf(p.out, "(declare-const %s %s)\n", t.name, sortStr(t.w))
		}
		p.names[t] = t.name
		return t.name
	case OpApp:
		args := make([]string, len(t.args))
		for i, a := range t.args {
			args[i] = p.ref(a)
		}
		if !p.decls[t.name] {
			p.decls[t.name] = true
			ss := make([]string, len(t.args))
			for i, a := range t.args {
				ss[i] = sortStr(a.w)
			}
			fmt.Fprintf(p.out, "(declare-fun %s (%s) %s)\n", t.name, strings.Join(ss, " "), sortStr(t.w))
		}
		if len(args) == 0 {
			s = t.name
		} else {
			s = "(" + t.name + " " + strings.Join(args, " ") + ")"
		}
	case OpExtract:
		s = fmt.Sprintf("((_ extract %d %d) %s)", t.hi, t.lo, p.ref(t.args[0]))
	case OpZExt:
		s = fmt.Sprintf("((_ zero_extend %d) %s)", t.w-t.args[0].w, p.ref(t.args[0]))
	case OpSExt:
		s = fmt.Sprintf("((_ sign_extend %d) %s)", t.w-t.args[0].w, p.ref(t.args[0]))
	default:
		args := make([]string, len(t.args))
		for i, a := range t.args {
			args[i] = p.ref(a)
		}
		s = "(" + opNames[t.op] + " " + strings.Join(args, " ") + ")"
	}
	if t.depth <= 2 {
		p.names[t] = s
		return s
	}
	if nm, ok := p.byExpr[s]; ok {
		p.names[t] = nm
		return nm
	}
	p.n++
	name := fmt.Sprintf("t!%d", p.n)
	p.byExpr[s] = name
	fmt.Fprintf(p.out, "(define-fun %s () %s %s)\n", name, sortStr(t.w), s)
	p.names[t] = name
	return name
}

func (p *smtPrinter) flush() string {
	s := p.out.String()
	p.out.Reset()
	return s
}

// termString renders a term for humans (evidence samples), truncated.
func termString(t *Term) string {
	var b strings.Builder
	var rec func(t *Term, d int)
	rec = func(t *Term, d int) {
		if b.Len() > 400 {
			return
		}
		switch t.op {
		case OpConst:
			if t.w == 0 {
				fmt.Fprintf(&b, "%v", t.val != 0)
			} else {
				fmt.Fprintf(&b, "%d", t.val)
			}
		case OpVar:
			b.WriteString(t.name)
		default:
			if d > 6 {
				b.WriteString("…")
				return
			}
			name := opNames[t.op]
			switch t.op {
			case OpExtract:
				name = fmt.Sprintf("extract[%d:%d]", t.hi, t.lo)
			case OpZExt:
				name = "zext"
			case OpSExt:
				name = "sext"
			case OpApp:
				name = t.name
			}
			b.WriteString("(" + name)
			for _, a := range t.args {
				b.WriteString(" ")
				rec(a, d+1)
			}
			b.WriteString(")")
		}
	}
	rec(t, 0)
	s := b.String()
	if len(s) > 400 {
		s = s[:400] + "…"
	}
	return s
}

var _ = bits.Len64
