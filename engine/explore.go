package main

// Depth-first exploration of decision vectors by re-execution, in parallel.

import (
	"fmt"
	"go/token"
	"os"
	"runtime/debug"
	"sort"
	"strings"
	"sync"
	"time"

	"golang.org/x/tools/go/ssa"
)

type RunResult struct {
	Harness       string
	Paths         int
	PathEnds      map[string]int
	Obligations   int
	ObUnsat       int
	ObSat         int
	ObUnknown     int
	ObConcrete    int
	Violations    []Violation
	Reached       map[string]bool
	ReachModels   map[string][]NondetRec
	Funcs         map[*ssa.Function]bool
	Stubs         map[string]int
	Inconclusive  map[string]int
	Unsupported   map[string]int
	Steps         int64
	Decisions     int64
	SolverQ       int
	SolverSat     int
	SolverUnsat   int
	SolverUnk     int
	SolverErr     int
	SolverTime    time.Duration
	Wall          time.Duration
	Samples       []map[string]any
	ObLabels      map[string]int
	Truncated     bool
	States        int64
	Transitions   int64
	Observes      map[string]int
	InitFails     map[string]int
	DistinctPaths int
	Cuts          map[string]int
}

type workItem struct {
	prefix []int
}

func explore(p *Program, cfg *HarnessCfg, workers int, deadline time.Time) (*RunResult, error) {
	fn := p.mainPkg.Func(cfg.Func)
	if fn == nil {
		return nil, fmt.Errorf("harness function %s not found in %s", cfg.Func, p.mainPkg.Pkg.Path())
	}
	rr := &RunResult{Harness: cfg.Func, PathEnds: map[string]int{}, Reached: map[string]bool{}, ReachModels: map[string][]NondetRec{},
		Funcs: map[*ssa.Function]bool{}, Stubs: map[string]int{}, Inconclusive: map[string]int{}, Unsupported: map[string]int{},
		ObLabels: map[string]int{}, Observes: map[string]int{}, InitFails: map[string]int{}, Cuts: map[string]int{}}
	t0 := time.Now()

	var mu sync.Mutex
	cond := sync.NewCond(&mu)
	var stack []workItem
	if cfg.Replay != nil {
		stack = append(stack, workItem{prefix: cfg.Replay})
	} else {
		stack = append(stack, workItem{prefix: nil})
	}
	active := 0
	stop := false
	violSeen := map[string]int{}

	var wg sync.WaitGroup
	worker := func(id int) {
		defer wg.Done()
		solver, err := newSolver("z3", cfg.SolverTimeoutMS)
		if err != nil {
			mu.Lock()
			rr.Inconclusive["cannot start solver: "+err.Error()]++
			stop = true
			cond.Broadcast()
			mu.Unlock()
			return
		}
		if lf := os.Getenv("GOSYM_SMTLOG"); lf != "" && id == 0 {
			f, _ := os.Create(lf)
			solver.log = f
		}
		defer func() {
			mu.Lock()
			rr.SolverQ += solver.queries
			rr.SolverSat += solver.satN
			rr.SolverUnsat += solver.unsatN
			rr.SolverUnk += solver.unkN
			rr.SolverErr += solver.errN
			rr.SolverTime += solver.time
			mu.Unlock()
			solver.Close()
		}()
		for {
			mu.Lock()
			for len(stack) == 0 && active > 0 && !stop {
				cond.Wait()
			}
			if stop || (len(stack) == 0 && active == 0) {
				cond.Broadcast()
				mu.Unlock()
				return
			}
			it := stack[len(stack)-1]
			stack = stack[:len(stack)-1]
			active++
			mu.Unlock()

			if solver.dead {
				solver.Close()
				ns, err := newSolver("z3", cfg.SolverTimeoutMS)
				if err != nil {
					mu.Lock()
					rr.Inconclusive["cannot restart solver: "+err.Error()]++
					stop = true
					active--
					cond.Broadcast()
					mu.Unlock()
					return
				}
				ns.queries, ns.satN, ns.unsatN, ns.unkN, ns.errN, ns.time = solver.queries, solver.satN, solver.unsatN, solver.unkN, solver.errN, solver.time
				solver = ns
			}
			errBefore := solver.errN
			res := runPath(p, cfg, fn, solver, it.prefix)
			// a solver error line or a solver that died during this path (seen under
			// memory / CPU pressure) is not a verdict: re-execute the path, which is
			// deterministic, on a fresh solver process before counting it
			for attempt := 0; attempt < 2 && (solver.errN > errBefore || solver.dead); attempt++ {
				solver.Close()
				ns, err := newSolver("z3", cfg.SolverTimeoutMS)
				if err != nil {
					break
				}
				ns.queries, ns.satN, ns.unsatN, ns.unkN, ns.errN, ns.time = solver.queries, solver.satN, solver.unsatN, solver.unkN, errBefore, solver.time
				solver = ns
				res = runPath(p, cfg, fn, solver, it.prefix)
			}

			mu.Lock()
			active--
			rr.Paths++
			rr.PathEnds[res.End]++
			if res.End == "unsupported" || res.End == "budget" {
				rr.Unsupported[res.End+": "+res.EndMsg]++
			}
			for _, s := range res.Inconclusive {
				rr.Inconclusive[s]++
			}
			for _, s := range res.InitFails {
				rr.InitFails[s]++
			}
			for _, s := range res.Cuts {
				rr.Cuts[s]++
			}
			nontrivial := false
			for _, ob := range res.Obligations {
				rr.Obligations++
				rr.ObLabels[ob.Label]++
				switch ob.Result {
				case "unsat":
					rr.ObUnsat++
					nontrivial = true
				case "sat", "concrete-false":
					rr.ObSat++
					nontrivial = true
				case "unknown":
					rr.ObUnknown++
				default:
					rr.ObConcrete++
					nontrivial = true
				}
				if len(rr.Samples) < 6 && (ob.Result == "unsat" || ob.Result == "concrete-true") && rr.Paths%7 == 1 {
					rr.Samples = append(rr.Samples, map[string]any{"kind": "obligation", "label": ob.Label, "at": ob.Pos, "result": ob.Result,
						"assertion": ob.CondStr, "path_decisions": len(res.Trace)})
				}
			}
			if nontrivial {
				rr.DistinctPaths++
			}
			for _, v := range res.Violations {
				// keep the first three counterexamples of an obligation, and beyond those
				// up to nine more whose leading choices differ from the ones kept (a
				// counterexample that does not replay natively — a solver's free choice of
				// a hash value, say — must not crowd out one that does)
				key := v.Kind + "|" + v.Label + "|" + v.Pos
				violSeen[key]++
				sig := key + "#"
				for i, nd := range v.Nondet {
					if i >= 3 {
						break
					}
					sig += fmt.Sprintf("%s=%v;", nd.Label, nd.Vals)
				}
				if violSeen[key] <= 3 {
					rr.Violations = append(rr.Violations, v)
					violSeen[sig]++
				} else if violSeen[sig] == 0 && violSeen[key+"#extra"] < 9 {
					rr.Violations = append(rr.Violations, v)
					violSeen[sig]++
					violSeen[key+"#extra"]++
				}
			}
			for l := range res.Reached {
				if !rr.Reached[l] {
					rr.Reached[l] = true
					rr.ReachModels[l] = res.ReachModels[l]
				}
			}
			for f := range res.Funcs {
				rr.Funcs[f] = true
			}
			for s, n := range res.Stubs {
				rr.Stubs[s] += n
			}
			for _, o := range res.Observes {
				rr.Observes[o]++
			}
			rr.Steps += int64(res.Steps)
			rr.Decisions += int64(res.Decisions)
			rr.States += int64(res.States)
			rr.Transitions += int64(res.Transitions)
			if cfg.Replay == nil {
				for _, a := range res.Alts {
					stack = append(stack, workItem{prefix: a})
				}
			}
			if rr.Paths >= cfg.MaxPaths || time.Now().After(deadline) {
				if len(stack) > 0 {
					rr.Truncated = true
				}
				stop = true
			}
			cond.Broadcast()
			mu.Unlock()
		}
	}
	if cfg.Replay != nil {
		workers = 1
	}
	for i := 0; i < workers; i++ {
		wg.Add(1)
		go worker(i)
	}
	wg.Wait()
	rr.Wall = time.Since(t0)
	sort.Slice(rr.Violations, func(i, j int) bool {
		a, b := rr.Violations[i], rr.Violations[j]
		if a.Label != b.Label {
			return a.Label < b.Label
		}
		return len(a.Trace) < len(b.Trace)
	})
	return rr, nil
}

func runPath(p *Program, cfg *HarnessCfg, fn *ssa.Function, solver *Solver, prefix []int) (res *PathResult) {
	solver.resetSession()
	res = &PathResult{Reached: map[string]bool{}, ReachModels: map[string][]NondetRec{}, Funcs: map[*ssa.Function]bool{}, Stubs: map[string]int{}}
	ex := &Exec{p: p, solver: solver, cfg: cfg, prefix: prefix, res: res,
		globals: map[*ssa.Global]*Value{}, inited: map[*ssa.Package]bool{}, allocCap: -1,
		side: map[*Value]interface{}{}, harnessFn: fn}
	ex.initThreads()
	finish := func(end, msg string) {
		res.End, res.EndMsg = end, msg
		res.Trace = ex.trace
		res.Alts = ex.alts
		res.Steps = ex.steps
		res.SymDecisions = ex.symDec
		ex.killThreads()
	}
	defer func() {
		r := recover()
		if r == nil {
			return
		}
		switch a := r.(type) {
		case abortPath:
			switch a.kind {
			case "assume":
				finish("assume", a.msg)
			case "stop":
				finish("violation", a.msg)
			default:
				finish(a.kind, a.msg)
			}
		case targetPanic:
			// uncaught panic at the harness top: a violation
			m := ex.model
			if m == nil {
				rs, mm := solver.Check(nil, true)
				if rs == Unsat {
					finish("assume", "infeasible")
					return
				}
				m = mm
			}
			pos := "?"
			if a.pos.IsValid() {
				pos = fmt.Sprintf("%s:%d", trimRepo(a.pos.Filename), a.pos.Line)
			}
			msg := a.msg
			if msg == "" {
				msg = "panic: " + ex.panicText(a.v)
			}
			ex.recordViolation("panic", "no-panic", pos, msg, m)
			finish("panic", msg)
		default:
			if os.Getenv("GOSYM_DEBUG") != "" {
				fmt.Fprintf(os.Stderr, "engine error: %v\n%s\n", r, debug.Stack())
			}
			finish("unsupported", fmt.Sprintf("engine error: %v", r))
		}
	}()
	ex.callSSA(nil, token.NoPos, fn, nil, nil)
	ex.endOfMain()
	finish("ok", "")
	return res
}

func trimRepo(s string) string {
	if strings.HasPrefix(s, repoRoot) {
		return s[len(repoRoot):]
	}
	return s
}

// panicText renders a panic value (error values via their message when concrete).
func (ex *Exec) panicText(v Value) string {
	if itf, ok := v.(Iface); ok {
		if s, ok := itf.v.(string); ok {
			return s
		}
		if itf.t != nil {
			return fmt.Sprintf("(%s) %s", itf.t, valString(itf.v))
		}
	}
	return valString(v)
}
