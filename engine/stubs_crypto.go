package main

// Contract models of cryptographic primitives:
//  - hash functions: uninterpreted functions of (algorithm, input bytes); real
//    digest when the whole input is concrete. Collision-freedom is NOT assumed.
//  - AES-GCM: ideal AEAD. Seal is functional in (key, nonce, plaintext, aad);
//    Open returns the plaintext iff the ciphertext is exactly a recorded Seal
//    under an equal key and nonce, otherwise an error (forgeries fail).
//    Both panic on a nonce that is not 12 bytes, as crypto/cipher documents.

import (
	"crypto/aes"
	"crypto/cipher"
	"crypto/sha256"
	"crypto/sha512"
	"fmt"
)

func concTerms(ts []*Term) ([]byte, bool) {
	out := make([]byte, len(ts))
	for i, t := range ts {
		if !t.IsConst() {
			return nil, false
		}
		out[i] = byte(t.val)
	}
	return out, true
}

type hashFact struct {
	alg     string
	in, out []*Term
}

// addAxiom adds a fact that is true in every model (no feasibility check).
func (ex *Exec) addAxiom(t *Term) {
	if t.IsConst() {
		return
	}
	ex.pc = append(ex.pc, t)
	ex.solver.Assert(t)
	if ex.model != nil {
		if v, ok := evalTerm(t, ex.model, map[*Term]uint64{}); !ok || v == 0 {
			ex.model = nil
		}
	}
}

type hashState struct {
	alg  string
	size int
	buf  []*Term
}

func (ex *Exec) digest(alg string, size int, in []*Term) []*Term {
	if ex.p.stubSet["hash-injective"] {
		// collision-resistant model on short inputs: input ‖ 0x80 ‖ zeros
		if len(in) > size-1 {
			ex.unsupported("hash-injective model: input of %d bytes is too long for a %d-byte digest", len(in), size)
		}
		out := make([]*Term, size)
		copy(out, in)
		out[len(in)] = byteConst(0x80)
		for i := len(in) + 1; i < size; i++ {
			out[i] = byteConst(0)
		}
		return out
	}
	allConc := true
	for _, b := range in {
		if !b.IsConst() {
			allConc = false
			break
		}
	}
	if allConc {
		raw := make([]byte, len(in))
		for i, b := range in {
			raw[i] = byte(b.val)
		}
		var d []byte
		switch alg {
		case "sha256":
			s := sha256.Sum256(raw)
			d = s[:]
		case "sha512":
			s := sha512.Sum512(raw)
			d = s[:]
		}
		if d != nil {
			out := make([]*Term, len(d))
			for i, c := range d {
				out[i] = byteConst(c)
			}
			// consistency with uninterpreted applications of the same arity
			for _, f := range ex.hashApps {
				if f.alg == alg && len(f.in) == len(in) {
					ex.addAxiom(mkOr(mkNot(ex.strEq(f.in, in)), ex.strEq(f.out, out)))
				}
			}
			if ex.p.stubSet["hash-collision-free"] {
				for _, f := range ex.hashApps {
					if f.alg != alg {
						continue
					}
					if len(f.in) == len(in) {
						ex.addAxiom(mkOr(mkNot(ex.strEq(f.out, out)), ex.strEq(f.in, in)))
					} else {
						ex.addAxiom(mkNot(ex.strEq(f.out, out)))
					}
				}
			}
			ex.hashFacts = append(ex.hashFacts, hashFact{alg: alg, in: in, out: out})
			return out
		}
	}
	out := make([]*Term, size)
	for i := range out {
		out[i] = mkApp(fmt.Sprintf("%s_n%d_o%d", alg, len(in), i), 8, in...)
	}
	for _, f := range ex.hashFacts {
		if f.alg == alg && len(f.in) == len(in) {
			ex.addAxiom(mkOr(mkNot(ex.strEq(f.in, in)), ex.strEq(f.out, out)))
		}
	}
	if ex.p.stubSet["hash-collision-free"] {
		// stated assumption: no collisions among the hash inputs of this run
		for _, f := range append(append([]hashFact{}, ex.hashFacts...), ex.hashApps...) {
			if f.alg != alg {
				continue
			}
			if len(f.in) == len(in) {
				ex.addAxiom(mkOr(mkNot(ex.strEq(f.out, out)), ex.strEq(f.in, in)))
			} else {
				ex.addAxiom(mkNot(ex.strEq(f.out, out)))
			}
		}
	}
	ex.hashApps = append(ex.hashApps, hashFact{alg: alg, in: in, out: out})
	return out
}

func (ex *Exec) mkHasher(alg string, size, block int) Value {
	hs := &hashState{alg: alg, size: size}
	o := &nativeObj{kind: "hash." + alg, state: hs}
	o.methods = map[string]func(ex *Exec, args []Value) Value{
		"Write": func(ex *Exec, args []Value) Value {
			p := args[0].([]Value)
			for _, b := range p {
				hs.buf = append(hs.buf, b.(*Term))
			}
			return Tuple{mkConst(64, uint64(len(p))), Iface{}}
		},
		"Sum": func(ex *Exec, args []Value) Value {
			var dst []Value
			if args[0] != nil {
				dst = args[0].([]Value)
			}
			d := ex.digest(alg, size, hs.buf)
			out := make([]Value, 0, len(dst)+len(d))
			out = append(out, dst...)
			for _, b := range d {
				out = append(out, b)
			}
			return out
		},
		"Reset":     func(ex *Exec, args []Value) Value { hs.buf = nil; return nil },
		"Size":      func(ex *Exec, args []Value) Value { return mkConst(64, uint64(size)) },
		"BlockSize": func(ex *Exec, args []Value) Value { return mkConst(64, uint64(block)) },
	}
	return nativeIface(o)
}

type sealRec struct {
	key, nonce, pt, aad, ct []*Term
}

type aeadState struct {
	key []*Term
}

func termsOf(v Value) []*Term {
	if v == nil {
		return nil
	}
	vs := v.([]Value)
	out := make([]*Term, len(vs))
	for i, x := range vs {
		out[i] = x.(*Term)
	}
	return out
}

func termsToValues(ts []*Term) []Value {
	out := make([]Value, len(ts))
	for i, t := range ts {
		out[i] = t
	}
	return out
}

func (ex *Exec) mkAEAD(key []*Term) Value {
	o := &nativeObj{kind: "cipher.AEAD(gcm)", state: &aeadState{key: key}}
	o.methods = map[string]func(ex *Exec, args []Value) Value{
		"NonceSize": func(ex *Exec, args []Value) Value { return mkConst(64, 12) },
		"Overhead":  func(ex *Exec, args []Value) Value { return mkConst(64, 16) },
		"Seal": func(ex *Exec, args []Value) Value {
			var dst []Value
			if args[0] != nil {
				dst = args[0].([]Value)
			}
			nonce, pt, aad := termsOf(args[1]), termsOf(args[2]), termsOf(args[3])
			if len(nonce) != 12 {
				ex.throwMsg(nil, 0, "crypto/cipher: incorrect nonce length given to GCM")
			}
			// fully concrete arguments: the real AES-GCM
			if k, ok1 := concTerms(key); ok1 {
				if n, ok2 := concTerms(nonce); ok2 {
					if p, ok3 := concTerms(pt); ok3 {
						if a, ok4 := concTerms(aad); ok4 {
							if blk, err := aes.NewCipher(k); err == nil {
								if g, err := cipher.NewGCM(blk); err == nil {
									real := g.Seal(nil, n, p, a)
									ct := make([]*Term, len(real))
									for i, c := range real {
										ct[i] = byteConst(c)
									}
									ex.seals = append(ex.seals, &sealRec{key: key, nonce: nonce, pt: pt, aad: aad, ct: ct})
									return append(dst, termsToValues(ct)...)
								}
							}
						}
					}
				}
			}
			// functional: reuse an existing record with identical argument terms
			all := append(append(append(append([]*Term{}, key...), nonce...), pt...), aad...)
			ct := make([]*Term, len(pt)+16)
			for i := range ct {
				ct[i] = mkApp(fmt.Sprintf("gcmseal_k%d_p%d_a%d_o%d", len(key), len(pt), len(aad), i), 8, all...)
			}
			// an ideal cipher is injective: equal ciphertexts come from equal (key, nonce, plaintext)
			for _, r := range ex.seals {
				if len(r.ct) == len(ct) {
					same := mkAnd(ex.strEq(r.key, key), mkAnd(ex.strEq(r.nonce, nonce), mkAnd(ex.strEq(r.pt, pt), ex.strEq(r.aad, aad))))
					ex.addAxiom(mkOr(mkNot(ex.strEq(r.ct, ct)), same))
				}
			}
			ex.seals = append(ex.seals, &sealRec{key: key, nonce: nonce, pt: pt, aad: aad, ct: ct})
			// like the real implementation, the result is appended to dst: with enough spare
			// capacity the ciphertext is written into dst's backing array
			return append(dst, termsToValues(ct)...)
		},
		"Open": func(ex *Exec, args []Value) Value {
			var dst []Value
			if args[0] != nil {
				dst = args[0].([]Value)
			}
			nonce, ct, aad := termsOf(args[1]), termsOf(args[2]), termsOf(args[3])
			if len(nonce) != 12 {
				ex.throwMsg(nil, 0, "crypto/cipher: incorrect nonce length given to GCM")
			}
			fail := func() Value {
				// as crypto/cipher: the would-be plaintext region of dst is zeroed when
				// authentication fails (visible when dst shares memory with the ciphertext)
				if n := len(ct) - 16; n > 0 && cap(dst)-len(dst) >= n {
					region := dst[len(dst) : len(dst)+n]
					for i := range region {
						region[i] = byteConst(0)
					}
				}
				return Tuple{[]Value(nil), ex.newErrorString("cipher: message authentication failed")}
			}
			if len(ct) < 16 {
				return fail()
			}
			if k, ok1 := concTerms(key); ok1 {
				if n, ok2 := concTerms(nonce); ok2 {
					if c, ok3 := concTerms(ct); ok3 {
						if a, ok4 := concTerms(aad); ok4 {
							if blk, err := aes.NewCipher(k); err == nil {
								if g, err := cipher.NewGCM(blk); err == nil {
									real, oerr := g.Open(nil, n, c, a)
									if oerr != nil {
										return fail()
									}
									out := make([]Value, len(real))
									for i, b := range real {
										out[i] = byteConst(b)
									}
									return Tuple{append(dst, out...), Iface{}}
								}
							}
						}
					}
				}
			}
			for _, r := range ex.seals {
				if len(r.ct) != len(ct) || len(r.key) != len(key) || len(r.aad) != len(aad) {
					continue
				}
				c := ex.strEq(r.key, key)
				c = mkAnd(c, ex.strEq(r.nonce, nonce))
				c = mkAnd(c, ex.strEq(r.ct, ct))
				c = mkAnd(c, ex.strEq(r.aad, aad))
				if ex.branch(c, "aead-open-matches-seal") {
					return Tuple{append(dst, termsToValues(r.pt)...), Iface{}}
				}
			}
			return fail()
		},
	}
	return nativeIface(o)
}

func init() {
	extraIntrinsics = append(extraIntrinsics, func(p *Program) {
		p.reg("crypto/sha256.New", func(ex *Exec, fr *Frame, args []Value) Value {
			return ex.mkHasher("sha256", 32, 64)
		})
		p.reg("crypto/sha512.New", func(ex *Exec, fr *Frame, args []Value) Value {
			return ex.mkHasher("sha512", 64, 128)
		})
		p.reg("crypto/sha256.Sum256", func(ex *Exec, fr *Frame, args []Value) Value {
			d := ex.digest("sha256", 32, termsOf(args[0]))
			return Array(termsToValues(d))
		})
		p.reg("crypto/sha512.Sum512", func(ex *Exec, fr *Frame, args []Value) Value {
			d := ex.digest("sha512", 64, termsOf(args[0]))
			return Array(termsToValues(d))
		})
		p.reg("github.com/multiformats/go-multihash.Sum", func(ex *Exec, fr *Frame, args []Value) Value {
			data := termsOf(args[0])
			code := args[1].(*Term)
			ln := args[2].(*Term)
			if !code.IsConst() || !ln.IsConst() {
				ex.unsupported("multihash.Sum with symbolic code or length")
			}
			var d []*Term
			switch code.val {
			case 0x12:
				d = ex.digest("sha256", 32, data)
			case 0x13:
				d = ex.digest("sha512", 64, data)
			case 0x56:
				d = ex.digest("sha256", 32, ex.digest("sha256", 32, data))
			case 0x00:
				d = data
			default:
				ex.unsupported("multihash.Sum: hash code %#x not modelled", code.val)
			}
			l := int(signExt(ln.val, 64))
			if l >= 0 {
				if l > len(d) {
					return Tuple{[]Value(nil), ex.newErrorString("requested length was too large for digest")}
				}
				if code.val == 0 && l != len(d) {
					return Tuple{[]Value(nil), ex.newErrorString("the length of the identity hash must be equal to the length of the data")}
				}
				d = d[:l]
			}
			enc := ex.p.funcByName("github.com/multiformats/go-multihash", "Encode")
			return ex.callSSA(fr, fr.callPos, enc, []Value{termsToValues(d), code}, nil)
		})
		p.reg("crypto/aes.NewCipher", func(ex *Exec, fr *Frame, args []Value) Value {
			key := termsOf(args[0])
			switch len(key) {
			case 16, 24, 32:
			default:
				return Tuple{Iface{}, ex.newErrorString(fmt.Sprintf("crypto/aes: invalid key size %d", len(key)))}
			}
			o := &nativeObj{kind: "cipher.Block(aes)", state: &aeadState{key: key}}
			o.methods = map[string]func(ex *Exec, args []Value) Value{
				"BlockSize": func(ex *Exec, args []Value) Value { return mkConst(64, 16) },
			}
			return Tuple{nativeIface(o), Iface{}}
		})
		p.reg("crypto/cipher.NewGCM", func(ex *Exec, fr *Frame, args []Value) Value {
			b := args[0].(Iface)
			no, ok := b.v.(*nativeObj)
			if !ok {
				ex.unsupported("cipher.NewGCM on a non-model block cipher")
			}
			return Tuple{ex.mkAEAD(no.state.(*aeadState).key), Iface{}}
		})
	})
}

// Text forms of hashes/CIDs over symbolic bytes feed only messages and URLs;
// base58/base32 big-number arithmetic on symbolic bytes is replaced by an
// injective hex model. Concrete values go through the real code.
func init() {
	extraIntrinsics = append(extraIntrinsics, func(p *Program) {
		hexModel := func(prefix string, bs []*Term) Value {
			out := strBytes(prefix)
			hex := func(n *Term) *Term {
				return mkIte(mkCmp(OpULt, n, byteConst(10)), mkBin(OpAdd, n, byteConst('0')), mkBin(OpAdd, n, byteConst('a'-10)))
			}
			for _, b := range bs {
				out = append(out, hex(mkBin(OpLShr, b, byteConst(4))), hex(mkBin(OpBAnd, b, byteConst(15))))
			}
			return mkStr(out)
		}
		symbolicOnly := func(name, prefix string, always bool) {
			p.reg(name, func(ex *Exec, fr *Frame, args []Value) Value {
				var bs []*Term
				switch v := args[0].(type) {
				case []Value:
					bs = termsOf(v)
				case string, SymStr:
					bs = strBytes(v)
				case Struct: // cid.Cid{str}
					bs = strBytes(v[0])
				default:
					ex.unsupported("%s on %T", name, args[0])
				}
				conc := true
				for _, b := range bs {
					if !b.IsConst() {
						conc = false
					}
				}
				if conc && !always {
					return ex.runReal(fr, name, args)
				}
				return hexModel(prefix, bs)
			})
		}
		symbolicOnly("(github.com/multiformats/go-multihash.Multihash).B58String", "mh58-", false)
		symbolicOnly("(github.com/multiformats/go-multihash.Multihash).HexString", "", false)
		symbolicOnly("(github.com/multiformats/go-multihash.Multihash).String", "", false)
		// the CID text form is a cache key in the announce receiver: one model for
		// concrete and symbolic CIDs alike, so that equal CIDs have equal text
		symbolicOnly("(github.com/ipfs/go-cid.Cid).String", "cid-", true)
		// cid.Decode (and Parse of a string) is the inverse of the text model
		p.reg("github.com/ipfs/go-cid.Decode", func(ex *Exec, fr *Frame, args []Value) Value {
			bs := strBytes(args[0])
			pre := "cid-"
			if len(bs) < len(pre) || (len(bs)-len(pre))%2 != 0 {
				return fallThrough{}
			}
			for i := range pre {
				if !bs[i].IsConst() || byte(bs[i].val) != pre[i] {
					return fallThrough{}
				}
			}
			bad := func() Value {
				ct := ex.p.namedType("github.com/ipfs/go-cid", "Cid")
				return Tuple{zero(ct), ex.newErrorString("model: invalid cid text")}
			}
			var raw []*Term
			for i := len(pre); i < len(bs); i += 2 {
				var nib [2]*Term
				for j := 0; j < 2; j++ {
					c := bs[i+j]
					isDigit := mkAnd(mkCmp(OpULe, byteConst('0'), c), mkCmp(OpULe, c, byteConst('9')))
					isAF := mkAnd(mkCmp(OpULe, byteConst('a'), c), mkCmp(OpULe, c, byteConst('f')))
					if !ex.branch(mkOr(isDigit, isAF), "cid-decode-hex") {
						return bad()
					}
					nib[j] = mkIte(isDigit, mkBin(OpSub, c, byteConst('0')), mkBin(OpSub, c, byteConst('a'-10)))
				}
				raw = append(raw, mkBin(OpBOr, mkBin(OpShl, nib[0], byteConst(4)), nib[1]))
			}
			f := ex.p.funcByName("github.com/ipfs/go-cid", "Cast")
			return ex.callSSA(fr, fr.callPos, f, []Value{termsToValues(raw)}, nil)
		})
	})
}
