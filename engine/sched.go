package main

// Concurrency run-time model: interpreted goroutines are engine goroutines
// that run one at a time; every scheduling choice is a decision of the
// decision vector, so schedules are explored like data branches.

import (
	"fmt"
	"go/token"
	"go/types"
	"sync"

	"golang.org/x/tools/go/ssa"
)

type Thread struct {
	id      int
	resume  chan struct{}
	done    bool
	enabled func() bool // nil: runnable
	desc    string
	daemon  bool
	name    string
	vc      vclock // race detection: vector clock
}

type waiter struct {
	th   *Thread
	tok  *selToken
	idx  int   // select case index
	val  Value // for senders: value offered
	recv bool
}

type selToken struct {
	fired bool
	idx   int
	val   Value
	ok    bool
}

func (ex *Exec) initThreads() {
	main := &Thread{id: 0, resume: make(chan struct{}, 1), name: "main"}
	ex.threads = []*Thread{main}
	ex.cur = main
}

var threadWG sync.WaitGroup

func (ex *Exec) spawn(fr *Frame, fn Value, args []Value, pos token.Pos) {
	th := &Thread{id: len(ex.threads), resume: make(chan struct{}, 1), name: fmt.Sprintf("g%d@%s", len(ex.threads), ex.posOf(fr, pos))}
	ex.threads = append(ex.threads, th)
	ex.res.States++
	ex.syncSpawn(ex.cur, th)
	go func() {
		<-th.resume
		defer func() {
			r := recover()
			th.done = true
			if r != nil {
				if a, ok := r.(abortPath); ok && a.kind == "killed" {
					return
				}
				if tp, ok := r.(targetPanic); ok {
					msg := tp.msg
					if msg == "" {
						msg = "panic: " + ex.panicText(tp.v)
					}
					func() {
						defer func() { recover() }()
						m := ex.model
						if m == nil {
							_, m = ex.solver.Check(nil, true)
						}
						p := "?"
						if tp.pos.IsValid() {
							p = fmt.Sprintf("%s:%d", trimRepo(tp.pos.Filename), tp.pos.Line)
						}
						ex.recordViolation("panic", "no-panic", p, "in goroutine "+th.name+": "+msg, m)
					}()
					r = abortPath{"stop", "panic in goroutine"}
				}
				ex.pendingAbort = r
				// hand control to main so it can abort the path
				ex.cur = ex.threads[0]
				ex.threads[0].resume <- struct{}{}
				return
			}
			// normal termination: pick another thread
			ex.threadExit(th)
		}()
		if ex.killed {
			panic(abortPath{"killed", ""})
		}
		ex.cur = th
		ex.call(nil, pos, fn, args)
	}()
	ex.schedule("go")
}

// threadExit is called on the dying thread's goroutine.
func (ex *Exec) threadExit(th *Thread) {
	next := ex.pickNext(th, false, "exit")
	if next == nil {
		// nobody can run: deadlock unless everything is finished; main decides
		ex.deadlock = true
		ex.cur = ex.threads[0]
		ex.threads[0].resume <- struct{}{}
		return
	}
	ex.cur = next
	next.resume <- struct{}{}
}

func (ex *Exec) enabledThreads() []*Thread {
	var out []*Thread
	for _, t := range ex.threads {
		if t.done {
			continue
		}
		if t.enabled == nil || t.enabled() {
			out = append(out, t)
		}
	}
	return out
}

// pickNext chooses the next thread to run. curEnabled tells whether the
// current thread could continue (then switching away costs a preemption).
func (ex *Exec) pickNext(cur *Thread, curEnabled bool, why string) *Thread {
	en := ex.enabledThreads()
	if len(en) == 0 {
		return nil
	}
	if curEnabled && ex.preempts >= ex.cfg.Preemptions {
		return cur
	}
	if len(en) == 1 {
		return en[0]
	}
	if !curEnabled {
		// forced switch: default = next thread in round-robin order after cur
		k := 0
		for i, t := range en {
			if t.id > cur.id {
				k = i
				break
			}
		}
		en = append(en[k:], en[:k]...)
		if ex.cfg.StrictSchedBound {
			if ex.preempts >= ex.cfg.Preemptions {
				return en[0]
			}
			guards := make([]*Term, len(en))
			c := ex.choose("sched:"+why, guards)
			ex.res.Transitions++
			ex.schedLog = append(ex.schedLog, en[c].id)
			if c != 0 {
				ex.preempts++
			}
			return en[c]
		}
	}
	// order: current first (so the default choice is "no switch")
	if curEnabled {
		for i, t := range en {
			if t == cur {
				en[0], en[i] = en[i], en[0]
			}
		}
	}
	guards := make([]*Term, len(en))
	c := ex.choose("sched:"+why, guards)
	ex.res.Transitions++
	nx := en[c]
	ex.schedLog = append(ex.schedLog, nx.id)
	if curEnabled && nx != cur {
		ex.preempts++
	}
	return nx
}

// schedule is called by the running thread before a visible operation.
func (ex *Exec) schedule(why string) {
	if len(ex.threads) == 1 {
		return
	}
	cur := ex.cur
	next := ex.pickNext(cur, true, why)
	if next == cur || next == nil {
		return
	}
	ex.switchTo(cur, next)
}

func (ex *Exec) switchTo(cur, next *Thread) {
	ex.cur = next
	next.resume <- struct{}{}
	<-cur.resume
	ex.afterResume(cur)
}

func (ex *Exec) afterResume(cur *Thread) {
	if ex.killed {
		panic(abortPath{"killed", ""})
	}
	if cur.id == 0 && ex.pendingAbort != nil {
		r := ex.pendingAbort
		ex.pendingAbort = nil
		panic(r)
	}
	ex.cur = cur
}

// block suspends the current thread until cond() holds. A state where no
// thread is enabled is a deadlock.
func (ex *Exec) block(cond func() bool, desc string, fr *Frame, pos token.Pos) {
	cur := ex.cur
	for !cond() {
		cur.enabled = cond
		cur.desc = desc
		next := ex.pickNext(cur, false, "block")
		if next == nil {
			cur.enabled = nil
			ex.reportDeadlock(fr, pos, desc)
		}
		ex.switchTo(cur, next)
		if cur.id == 0 && ex.deadlock {
			cur.enabled = nil
			ex.reportDeadlock(fr, pos, desc)
		}
	}
	cur.enabled = nil
}

func (ex *Exec) reportDeadlock(fr *Frame, pos token.Pos, desc string) {
	m := ex.model
	if m == nil && len(ex.pc) > 0 {
		_, m = ex.solver.Check(nil, true)
	}
	msg := "all goroutines are blocked: "
	for _, t := range ex.threads {
		if !t.done {
			d := t.desc
			if t == ex.cur || d == "" {
				if t == ex.cur {
					d = desc
				}
			}
			msg += fmt.Sprintf("[%s: %s] ", t.name, d)
		}
	}
	ex.recordViolation("deadlock", "no-hang", ex.posOf(fr, pos), msg, m)
	panic(abortPath{"stop", "deadlock"})
}

// endOfMain: the harness returned. Remaining goroutines are abandoned.
func (ex *Exec) endOfMain() {}

func (ex *Exec) killThreads() {
	ex.killed = true
	for _, t := range ex.threads[1:] {
		if !t.done {
			select {
			case t.resume <- struct{}{}:
			default:
			}
		}
	}
}

// ---- channels ----

func (ex *Exec) chanOf(v Value) *Chan {
	c, ok := v.(*Chan)
	if !ok {
		ex.unsupported("channel operation on %T", v)
	}
	return c
}

func (c *Chan) pruneWaiters() {
	f := func(ws []*waiter) []*waiter {
		out := ws[:0]
		for _, w := range ws {
			if !w.tok.fired && !w.th.done {
				out = append(out, w)
			}
		}
		return out
	}
	c.recvq = f(c.recvq)
	c.sendq = f(c.sendq)
}

// trySend attempts a non-blocking send; returns true when completed.
func (ex *Exec) trySend(c *Chan, v Value) bool {
	c.pruneWaiters()
	if len(c.recvq) > 0 {
		w := c.recvq[0]
		c.recvq = c.recvq[1:]
		w.tok.fired, w.tok.idx, w.tok.val, w.tok.ok = true, w.idx, v, true
		return true
	}
	if len(c.buf) < c.cap {
		c.buf = append(c.buf, v)
		return true
	}
	return false
}

// tryRecv attempts a non-blocking receive.
func (ex *Exec) tryRecv(c *Chan) (v Value, ok bool, done bool) {
	c.pruneWaiters()
	if len(c.buf) > 0 {
		v = c.buf[0]
		c.buf = c.buf[1:]
		// a blocked sender can now move into the buffer
		if len(c.sendq) > 0 {
			w := c.sendq[0]
			c.sendq = c.sendq[1:]
			c.buf = append(c.buf, w.val)
			w.tok.fired, w.tok.idx = true, w.idx
		}
		return v, true, true
	}
	if len(c.sendq) > 0 {
		w := c.sendq[0]
		c.sendq = c.sendq[1:]
		w.tok.fired, w.tok.idx = true, w.idx
		return w.val, true, true
	}
	if c.closed {
		return zero(c.elemT), false, true
	}
	return nil, false, false
}

func (ex *Exec) chanSend(fr *Frame, cv, v Value, pos token.Pos) {
	if ex.cfg.Races {
		if c := ex.chanOf(cv); c != nil {
			ex.syncOn(c)
			ex.chanSend0(fr, cv, v, pos)
			ex.syncOn(c) // (not deferred: a killed thread unwinds through here)
			return
		}
	}
	ex.chanSend0(fr, cv, v, pos)
}

func (ex *Exec) chanSend0(fr *Frame, cv, v Value, pos token.Pos) {
	c := ex.chanOf(cv)
	ex.schedule("send")
	if c == nil {
		ex.block(func() bool { return false }, "send on nil channel", fr, pos)
	}
	if c.closed {
		ex.throwMsg(fr, pos, "send on closed channel")
	}
	if ex.trySend(c, v) {
		return
	}
	tok := &selToken{}
	c.sendq = append(c.sendq, &waiter{th: ex.cur, tok: tok, val: v})
	ex.block(func() bool { return tok.fired || c.closed }, fmt.Sprintf("chan send at %s", ex.posOf(fr, pos)), fr, pos)
	if !tok.fired {
		tok.fired = true
		ex.throwMsg(fr, pos, "send on closed channel")
	}
}

func (ex *Exec) throwMsg(fr *Frame, pos token.Pos, msg string) {
	var p token.Position
	if pos != token.NoPos {
		p = ex.p.prog.Fset.Position(pos)
	}
	panic(targetPanic{v: Iface{t: ex.p.runtimeErrorType(), v: msg}, msg: msg, pos: p})
}

func (ex *Exec) chanRecv(fr *Frame, cv Value, commaOk bool, pos token.Pos) Value {
	if ex.cfg.Races {
		if c := ex.chanOf(cv); c != nil {
			ex.syncOn(c)
			r := ex.chanRecv0(fr, cv, commaOk, pos)
			ex.syncOn(c)
			return r
		}
	}
	return ex.chanRecv0(fr, cv, commaOk, pos)
}

func (ex *Exec) chanRecv0(fr *Frame, cv Value, commaOk bool, pos token.Pos) Value {
	c := ex.chanOf(cv)
	ex.schedule("recv")
	var v Value
	var ok bool
	if c == nil {
		ex.block(func() bool { return false }, "receive from nil channel", fr, pos)
	}
	if rv, rok, done := ex.tryRecv(c); done {
		v, ok = rv, rok
	} else {
		tok := &selToken{}
		c.recvq = append(c.recvq, &waiter{th: ex.cur, tok: tok, recv: true})
		ex.block(func() bool { return tok.fired || c.closed }, fmt.Sprintf("chan receive at %s", ex.posOf(fr, pos)), fr, pos)
		if tok.fired {
			v, ok = tok.val, true
		} else {
			tok.fired = true
			v, ok = zero(c.elemT), false
		}
	}
	if commaOk {
		return Tuple{v, mkBool(ok)}
	}
	return v
}

func (ex *Exec) chanClose(fr *Frame, cv Value, pos token.Pos) {
	if ex.cfg.Races {
		if c := ex.chanOf(cv); c != nil {
			ex.syncOn(c)
		}
	}
	c := ex.chanOf(cv)
	ex.schedule("close")
	if c == nil {
		ex.throwMsg(fr, pos, "close of nil channel")
	}
	if c.closed {
		ex.throwMsg(fr, pos, "close of closed channel")
	}
	c.closed = true
}

func (ex *Exec) doSelect(fr *Frame, instr *ssa.Select) Value {
	if !ex.cfg.Races {
		return ex.doSelect0(fr, instr)
	}
	for _, st := range instr.States {
		if st.Dir == types.SendOnly {
			if c := ex.chanOf(fr.get(st.Chan)); c != nil {
				ex.syncOn(c)
			}
		}
	}
	r := ex.doSelect0(fr, instr)
	if t, ok := r.(Tuple); ok && len(t) > 0 {
		if idx, ok := t[0].(*Term); ok && idx.IsConst() {
			if i := int(int64(idx.val)); i >= 0 && i < len(instr.States) {
				if c := ex.chanOf(fr.get(instr.States[i].Chan)); c != nil {
					ex.syncOn(c)
				}
			}
		}
	}
	return r
}

func (ex *Exec) doSelect0(fr *Frame, instr *ssa.Select) Value {
	ex.schedule("select")
	type scase struct {
		c    *Chan
		send bool
		val  Value
	}
	cases := make([]scase, len(instr.States))
	for i, st := range instr.States {
		cases[i].c = ex.chanOf(fr.get(st.Chan))
		if st.Dir == types.SendOnly {
			cases[i].send = true
			cases[i].val = fr.get(st.Send)
		}
	}
	ready := func() []int {
		var r []int
		for i, sc := range cases {
			if sc.c == nil {
				continue
			}
			sc.c.pruneWaiters()
			if sc.send {
				if sc.c.closed || len(sc.c.recvq) > 0 || len(sc.c.buf) < sc.c.cap {
					r = append(r, i)
				}
			} else {
				if sc.c.closed || len(sc.c.buf) > 0 || len(sc.c.sendq) > 0 {
					r = append(r, i)
				}
			}
		}
		return r
	}
	finish := func(chosen int, recvVal Value, recvOk bool) Value {
		r := Tuple{mkConst(64, uint64(int64(chosen))), mkBool(recvOk)}
		for i, st := range instr.States {
			if st.Dir == types.RecvOnly {
				if i == chosen && recvOk {
					r = append(r, recvVal)
				} else {
					r = append(r, zero(st.Chan.Type().Underlying().(*types.Chan).Elem()))
				}
			}
		}
		return r
	}
	fire := func(i int) Value {
		sc := cases[i]
		if sc.send {
			if sc.c.closed {
				ex.throwMsg(fr, instr.Pos(), "send on closed channel")
			}
			if !ex.trySend(sc.c, sc.val) {
				panic("engine: select send not ready")
			}
			return finish(i, nil, false)
		}
		v, ok, done := ex.tryRecv(sc.c)
		if !done {
			panic("engine: select recv not ready")
		}
		return finish(i, v, ok)
	}
	rd := ready()
	if len(rd) > 0 {
		k := 0
		if len(rd) > 1 {
			k = ex.choose("select", make([]*Term, len(rd)))
		}
		return fire(rd[k])
	}
	if !instr.Blocking {
		return finish(-1, nil, false)
	}
	// block on all cases
	tok := &selToken{}
	for i, sc := range cases {
		if sc.c == nil {
			continue
		}
		w := &waiter{th: ex.cur, tok: tok, idx: i, val: sc.val, recv: !sc.send}
		if sc.send {
			sc.c.sendq = append(sc.c.sendq, w)
		} else {
			sc.c.recvq = append(sc.c.recvq, w)
		}
	}
	anyClosed := func() bool {
		for _, sc := range cases {
			if sc.c != nil && sc.c.closed {
				return true
			}
		}
		return false
	}
	ex.block(func() bool { return tok.fired || anyClosed() }, fmt.Sprintf("select at %s", ex.posOf(fr, instr.Pos())), fr, instr.Pos())
	if tok.fired {
		if cases[tok.idx].send {
			return finish(tok.idx, nil, false)
		}
		return finish(tok.idx, tok.val, true)
	}
	tok.fired = true // withdraw
	rd = ready()
	k := 0
	if len(rd) > 1 {
		k = ex.choose("select", make([]*Term, len(rd)))
	}
	return fire(rd[k])
}

// ---- data-race bookkeeping hooks (no-ops unless enabled) ----
