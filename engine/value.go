package main

// Value model (adapted from golang.org/x/tools/go/ssa/interp, BSD licence):
// every scalar is a *Term; aggregates are boxed Go slices; pointers are *Value.

import (
	"fmt"
	"go/types"
	"strings"

	"golang.org/x/tools/go/ssa"
)

type Value interface{}

type Tuple []Value
type Array []Value
type Struct []Value

type Iface struct {
	t types.Type // dynamic type; nil for nil interface
	v Value
}

type Closure struct {
	Fn  *ssa.Function
	Env []Value
}

// Native is a function value implemented by the engine (bound model methods).
type Native struct {
	name string
	fn   func(ex *Exec, args []Value) Value
}

// SymStr is a string with at least one symbolic byte; length is concrete.
// Fully concrete strings are Go strings.
type SymStr []*Term

// Opaque stands for a value the engine cannot represent (results of
// uninterpretable initialisers). Any use other than copying aborts the path.
type Opaque struct {
	what string
}

type mapEntry struct {
	key   Value
	val   Value
	alive bool
}

type MapV struct {
	keyT    types.Type
	entries []*mapEntry
	n       int
	index   map[string]int // concrete-key fast index -> entries position
	symKeys int            // number of live entries with symbolic keys
}

type Chan struct {
	id     int
	buf    []Value
	cap    int
	closed bool
	elemT  types.Type
	recvq  []*waiter
	sendq  []*waiter
}

type bad struct{}

func deref(t types.Type) types.Type {
	if p, ok := t.Underlying().(*types.Pointer); ok {
		return p.Elem()
	}
	panic(fmt.Sprintf("deref: not a pointer: %v", t))
}

func intWidth(b *types.Basic) (w int, signed bool, ok bool) {
	switch b.Kind() {
	case types.Bool, types.UntypedBool:
		return 0, false, true
	case types.Int, types.Int64, types.UntypedInt:
		return 64, true, true
	case types.Int8:
		return 8, true, true
	case types.Int16:
		return 16, true, true
	case types.Int32, types.UntypedRune:
		return 32, true, true
	case types.Uint, types.Uint64, types.Uintptr:
		return 64, false, true
	case types.Uint8:
		return 8, false, true
	case types.Uint16:
		return 16, false, true
	case types.Uint32:
		return 32, false, true
	}
	return 0, false, false
}

func isFloat(b *types.Basic) bool {
	switch b.Kind() {
	case types.Float32, types.Float64, types.UntypedFloat:
		return true
	}
	return false
}

// zero returns the zero value of type t.
func zero(t types.Type) Value {
	switch t := t.(type) {
	case *types.Basic:
		if t.Kind() == types.UntypedNil {
			panic("untyped nil has no zero value")
		}
		if w, _, ok := intWidth(t); ok {
			return mkConst(w, 0)
		}
		switch t.Kind() {
		case types.Float32:
			return float32(0)
		case types.Float64, types.UntypedFloat:
			return float64(0)
		case types.Complex64:
			return complex64(0)
		case types.Complex128, types.UntypedComplex:
			return complex128(0)
		case types.String, types.UntypedString:
			return ""
		case types.UnsafePointer:
			return Opaque{"unsafe.Pointer(nil)"}
		}
		panic(fmt.Sprint("zero for unexpected basic type: ", t))
	case *types.Pointer:
		return (*Value)(nil)
	case *types.Array:
		a := make(Array, t.Len())
		if t.Len() > 0 {
			// share scalars (immutable), rebuild aggregates
			if isScalarType(t.Elem()) {
				z := zero(t.Elem())
				for i := range a {
					a[i] = z
				}
			} else {
				for i := range a {
					a[i] = zero(t.Elem())
				}
			}
		}
		return a
	case *types.Named:
		return zero(t.Underlying())
	case *types.Alias:
		return zero(types.Unalias(t))
	case *types.Interface:
		return Iface{}
	case *types.Slice:
		return []Value(nil)
	case *types.Struct:
		s := make(Struct, t.NumFields())
		for i := range s {
			s[i] = zero(t.Field(i).Type())
		}
		return s
	case *types.Tuple:
		if t.Len() == 1 {
			return zero(t.At(0).Type())
		}
		s := make(Tuple, t.Len())
		for i := range s {
			s[i] = zero(t.At(i).Type())
		}
		return s
	case *types.Chan:
		return (*Chan)(nil)
	case *types.Map:
		return (*MapV)(nil)
	case *types.Signature:
		return (*ssa.Function)(nil)
	case *types.TypeParam:
		panic("zero of type parameter (generic function not instantiated)")
	}
	panic(fmt.Sprint("zero: unexpected ", t))
}

func isScalarType(t types.Type) bool {
	switch t.Underlying().(type) {
	case *types.Basic, *types.Pointer, *types.Chan, *types.Map, *types.Signature, *types.Slice, *types.Interface:
		return true
	}
	return false
}

// load returns a copy of the value of type T stored in *addr.
func load(T types.Type, addr *Value) Value {
	switch T := T.Underlying().(type) {
	case *types.Struct:
		v, ok := (*addr).(Struct)
		if !ok {
			return *addr // Opaque etc.
		}
		a := make(Struct, len(v))
		for i := range a {
			a[i] = load(T.Field(i).Type(), &v[i])
		}
		return a
	case *types.Array:
		v, ok := (*addr).(Array)
		if !ok {
			return *addr
		}
		a := make(Array, len(v))
		if isScalarType(T.Elem()) {
			copy(a, v)
		} else {
			for i := range a {
				a[i] = load(T.Elem(), &v[i])
			}
		}
		return a
	default:
		return *addr
	}
}

// store copies v of type T into *addr, preserving the identity of the
// aggregate cells addr points at (so interior pointers stay valid).
func store(T types.Type, addr *Value, v Value) {
	switch T := T.Underlying().(type) {
	case *types.Struct:
		lhs, ok1 := (*addr).(Struct)
		rhs, ok2 := v.(Struct)
		if !ok1 || !ok2 {
			*addr = v
			return
		}
		for i := range lhs {
			store(T.Field(i).Type(), &lhs[i], rhs[i])
		}
	case *types.Array:
		lhs, ok1 := (*addr).(Array)
		rhs, ok2 := v.(Array)
		if !ok1 || !ok2 {
			*addr = v
			return
		}
		if isScalarType(T.Elem()) {
			copy(lhs, rhs)
		} else {
			for i := range lhs {
				store(T.Elem(), &lhs[i], rhs[i])
			}
		}
	default:
		*addr = v
	}
}

// copyVal makes an unaliased copy of an aggregate value.
func copyVal(T types.Type, v Value) Value {
	tmp := v
	return load(T, &tmp)
}

// ---- strings ----

func strLen(v Value) int {
	switch s := v.(type) {
	case string:
		return len(s)
	case SymStr:
		return len(s)
	}
	panic(fmt.Sprintf("strLen: %T", v))
}

func strBytes(v Value) []*Term {
	switch s := v.(type) {
	case string:
		out := make([]*Term, len(s))
		for i := 0; i < len(s); i++ {
			out[i] = byteConst(s[i])
		}
		return out
	case SymStr:
		return s
	}
	panic(fmt.Sprintf("strBytes: %T", v))
}

var byteConsts [256]*Term

func init() {
	for i := range byteConsts {
		byteConsts[i] = mkConst(8, uint64(i))
	}
}

func byteConst(b byte) *Term { return byteConsts[b] }

// mkStr builds a string value from byte terms (Go string when all concrete).
func mkStr(bs []*Term) Value {
	for _, b := range bs {
		if !b.IsConst() {
			c := make(SymStr, len(bs))
			copy(c, bs)
			return c
		}
	}
	var sb strings.Builder
	for _, b := range bs {
		sb.WriteByte(byte(b.val))
	}
	return sb.String()
}

func concreteBytes(vs []Value) ([]byte, bool) {
	out := make([]byte, len(vs))
	for i, v := range vs {
		t, ok := v.(*Term)
		if !ok || !t.IsConst() {
			return nil, false
		}
		out[i] = byte(t.val)
	}
	return out, true
}

func bytesToValues(b []byte) []Value {
	out := make([]Value, len(b))
	for i, c := range b {
		out[i] = byteConst(c)
	}
	return out
}

// ---- printing (debug / evidence) ----

func valString(v Value) string {
	var b strings.Builder
	writeVal(&b, v, 0)
	return b.String()
}

func writeVal(b *strings.Builder, v Value, d int) {
	if d > 4 || b.Len() > 300 {
		b.WriteString("…")
		return
	}
	switch v := v.(type) {
	case nil:
		b.WriteString("<nil>")
	case *Term:
		b.WriteString(termString(v))
	case string:
		fmt.Fprintf(b, "%q", v)
	case SymStr:
		b.WriteString("symstr[")
		for i, t := range v {
			if i > 0 {
				b.WriteString(" ")
			}
			b.WriteString(termString(t))
		}
		b.WriteString("]")
	case []Value:
		if v == nil {
			b.WriteString("nil-slice")
			return
		}
		b.WriteString("[")
		for i, e := range v {
			if i > 0 {
				b.WriteString(" ")
			}
			writeVal(b, e, d+1)
		}
		b.WriteString("]")
	case Array:
		b.WriteString("arr[")
		for i, e := range v {
			if i > 0 {
				b.WriteString(" ")
			}
			writeVal(b, e, d+1)
		}
		b.WriteString("]")
	case Struct:
		b.WriteString("{")
		for i, e := range v {
			if i > 0 {
				b.WriteString(" ")
			}
			writeVal(b, e, d+1)
		}
		b.WriteString("}")
	case Tuple:
		b.WriteString("(")
		for i, e := range v {
			if i > 0 {
				b.WriteString(", ")
			}
			writeVal(b, e, d+1)
		}
		b.WriteString(")")
	case Iface:
		if v.t == nil {
			b.WriteString("nil-iface")
			return
		}
		fmt.Fprintf(b, "(%s: ", v.t)
		writeVal(b, v.v, d+1)
		b.WriteString(")")
	case *Value:
		if v == nil {
			b.WriteString("nil-ptr")
		} else {
			b.WriteString("&")
			writeVal(b, *v, d+1)
		}
	case *MapV:
		if v == nil {
			b.WriteString("nil-map")
			return
		}
		b.WriteString("map[")
		for _, e := range v.entries {
			if e.alive {
				writeVal(b, e.key, d+1)
				b.WriteString(":")
				writeVal(b, e.val, d+1)
				b.WriteString(" ")
			}
		}
		b.WriteString("]")
	default:
		fmt.Fprintf(b, "<%T>", v)
	}
}
