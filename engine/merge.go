package main

// ite-merging of side-effect-free diamonds/triangles (removes most forks that
// come from && / || and small conditional assignments).

import (
	"go/token"
	"go/types"

	"golang.org/x/tools/go/ssa"
)

func speculatable(b *ssa.BasicBlock) bool {
	if len(b.Preds) != 1 || len(b.Instrs) == 0 || len(b.Instrs) > 12 {
		return false
	}
	if _, ok := b.Instrs[len(b.Instrs)-1].(*ssa.Jump); !ok {
		return false
	}
	for _, in := range b.Instrs[:len(b.Instrs)-1] {
		switch in := in.(type) {
		case *ssa.DebugRef:
		case *ssa.BinOp:
			switch in.Op {
			case token.QUO, token.REM:
				return false
			case token.SHL, token.SHR:
				if _, ok := in.Y.(*ssa.Const); !ok {
					return false
				}
			}
			if !basicInts(in.X.Type()) && !isStringType(in.X.Type()) {
				if in.Op != token.EQL && in.Op != token.NEQ {
					return false
				}
				switch in.X.Type().Underlying().(type) {
				case *types.Interface, *types.Struct, *types.Array:
					return false
				}
			}
		case *ssa.UnOp:
			if in.Op == token.MUL || in.Op == token.ARROW {
				return false
			}
		case *ssa.Convert:
			if !basicInts(in.X.Type()) || !basicInts(in.Type()) {
				return false
			}
		case *ssa.ChangeType:
		default:
			return false
		}
	}
	return true
}

func basicInts(t types.Type) bool {
	b, ok := t.Underlying().(*types.Basic)
	if !ok {
		return false
	}
	_, _, isInt := intWidth(b)
	return isInt
}

func isStringType(t types.Type) bool {
	b, ok := t.Underlying().(*types.Basic)
	return ok && b.Info()&types.IsString != 0
}

func (ex *Exec) tryMergeDiamond(fr *Frame, instr *ssa.If, c *Term) bool {
	if ex.cfg.NoMerge {
		return false
	}
	b := fr.block
	T, F := b.Succs[0], b.Succs[1]
	var J *ssa.BasicBlock
	var predT, predF *ssa.BasicBlock // predecessors of J on each side
	switch {
	case speculatable(T) && T.Succs[0] == F && T != F:
		J, predT, predF = F, T, b
	case speculatable(F) && F.Succs[0] == T && T != F:
		J, predT, predF = T, b, F
	case speculatable(T) && speculatable(F) && T.Succs[0] == F.Succs[0] && T != F:
		J, predT, predF = T.Succs[0], T, F
	default:
		return false
	}
	if J == b {
		return false
	}
	// J's phis must merge Term values only
	iT, iF := -1, -1
	for i, p := range J.Preds {
		if p == predT && iT < 0 {
			iT = i
		} else if p == predF && iF < 0 {
			iF = i
		}
	}
	if iT < 0 || iF < 0 {
		return false
	}
	for _, in := range J.Instrs {
		phi, ok := in.(*ssa.Phi)
		if !ok {
			break
		}
		if !basicInts(phi.Type()) {
			if phi.Edges[iT] != phi.Edges[iF] {
				return false
			}
		}
	}
	// run the side blocks (pure, fresh SSA names)
	for _, sb := range []*ssa.BasicBlock{predT, predF} {
		if sb == b {
			continue
		}
		for _, in := range sb.Instrs[:len(sb.Instrs)-1] {
			ex.visitInstr(fr, in)
		}
	}
	var phis []*ssa.Phi
	var vals []Value
	for _, in := range J.Instrs {
		phi, ok := in.(*ssa.Phi)
		if !ok {
			break
		}
		vT := fr.get(phi.Edges[iT])
		vF := fr.get(phi.Edges[iF])
		tT, ok1 := vT.(*Term)
		tF, ok2 := vF.(*Term)
		if ok1 && ok2 {
			vals = append(vals, mkIte(c, tT, tF))
		} else {
			vals = append(vals, vT)
		}
		phis = append(phis, phi)
	}
	if fr.merged == nil {
		fr.merged = map[*ssa.Phi]bool{}
	}
	for i, phi := range phis {
		fr.env[phi] = vals[i]
		fr.merged[phi] = true
	}
	ex.res.Merges++
	fr.prevBlock, fr.block = predT, J
	return true
}
