package main

// Models of sync, sync/atomic and a few run-time services.

import (
	"fmt"
	"go/types"
)

type mutexState struct {
	locked  bool
	owner   int
	readers int
}

type wgState struct{ n int64 }
type onceState struct{ state int } // 0 idle, 1 running, 2 done

func (ex *Exec) sideOf(p *Value, mk func() interface{}) interface{} {
	if s, ok := ex.side[p]; ok {
		return s
	}
	s := mk()
	ex.side[p] = s
	return s
}

func (ex *Exec) mutexOf(v Value) *mutexState {
	p, ok := v.(*Value)
	if !ok || p == nil {
		ex.throwMsg(nil, 0, "invalid memory address or nil pointer dereference (nil mutex)")
	}
	return ex.sideOf(p, func() interface{} { return &mutexState{} }).(*mutexState)
}

func registerSyncIntrinsics(p *Program) {
	lock := func(ex *Exec, fr *Frame, args []Value) Value {
		m := ex.mutexOf(args[0])
		ex.schedule("lock")
		if m.locked || m.readers > 0 {
			ex.block(func() bool { return !m.locked && m.readers == 0 }, "Mutex.Lock at "+ex.posOf(fr, fr.callPos), fr, fr.callPos)
		}
		m.locked = true
		m.owner = ex.cur.id
		ex.lockEvents = append(ex.lockEvents, lockEvent{m: m, op: +1})
		return nil
	}
	unlock := func(ex *Exec, fr *Frame, args []Value) Value {
		m := ex.mutexOf(args[0])
		if !m.locked {
			ex.recordViolation("panic", "no-panic", ex.posOf(fr, fr.callPos), "fatal error: sync: unlock of unlocked mutex", ex.modelOrCheck())
			panic(abortPath{"stop", "unlock of unlocked mutex"})
		}
		m.locked = false
		ex.lockEvents = append(ex.lockEvents, lockEvent{m: m, op: -1})
		if ex.cfg.YieldOnUnlock {
			ex.schedule("unlock")
		}
		return nil
	}
	p.reg("(*sync.Mutex).Lock", lock)
	p.reg("(*sync.Mutex).Unlock", unlock)
	p.reg("(*sync.Mutex).TryLock", func(ex *Exec, fr *Frame, args []Value) Value {
		m := ex.mutexOf(args[0])
		ex.schedule("trylock")
		if m.locked || m.readers > 0 {
			return tFalse
		}
		m.locked = true
		m.owner = ex.cur.id
		ex.lockEvents = append(ex.lockEvents, lockEvent{m: m, op: +1})
		return tTrue
	})
	p.reg("(*sync.RWMutex).Lock", lock)
	p.reg("(*sync.RWMutex).Unlock", unlock)
	p.reg("(*sync.RWMutex).RLock", func(ex *Exec, fr *Frame, args []Value) Value {
		m := ex.mutexOf(args[0])
		ex.schedule("rlock")
		if m.locked {
			ex.block(func() bool { return !m.locked }, "RWMutex.RLock at "+ex.posOf(fr, fr.callPos), fr, fr.callPos)
		}
		m.readers++
		ex.lockEvents = append(ex.lockEvents, lockEvent{m: m, op: +1})
		return nil
	})
	p.reg("(*sync.RWMutex).RUnlock", func(ex *Exec, fr *Frame, args []Value) Value {
		m := ex.mutexOf(args[0])
		if m.readers <= 0 {
			ex.recordViolation("panic", "no-panic", ex.posOf(fr, fr.callPos), "fatal error: sync: RUnlock of unlocked RWMutex", ex.modelOrCheck())
			panic(abortPath{"stop", "RUnlock of unlocked RWMutex"})
		}
		m.readers--
		ex.lockEvents = append(ex.lockEvents, lockEvent{m: m, op: -1})
		return nil
	})
	p.reg("(*sync.RWMutex).RLocker", func(ex *Exec, fr *Frame, args []Value) Value {
		ex.unsupported("RWMutex.RLocker")
		return nil
	})

	wg := func(ex *Exec, v Value) *wgState {
		return ex.sideOf(v.(*Value), func() interface{} { return &wgState{} }).(*wgState)
	}
	p.reg("(*sync.WaitGroup).Add", func(ex *Exec, fr *Frame, args []Value) Value {
		w := wg(ex, args[0])
		d := args[1].(*Term)
		if !d.IsConst() {
			ex.unsupported("WaitGroup.Add with symbolic delta")
		}
		w.n += signExt(d.val, d.w)
		if w.n < 0 {
			ex.throwMsg(fr, fr.callPos, "sync: negative WaitGroup counter")
		}
		return nil
	})
	p.reg("(*sync.WaitGroup).Done", func(ex *Exec, fr *Frame, args []Value) Value {
		w := wg(ex, args[0])
		w.n--
		if w.n < 0 {
			ex.throwMsg(fr, fr.callPos, "sync: negative WaitGroup counter")
		}
		return nil
	})
	p.reg("(*sync.WaitGroup).Wait", func(ex *Exec, fr *Frame, args []Value) Value {
		w := wg(ex, args[0])
		ex.schedule("wg.Wait")
		if w.n > 0 {
			ex.block(func() bool { return w.n == 0 }, "WaitGroup.Wait at "+ex.posOf(fr, fr.callPos), fr, fr.callPos)
		}
		return nil
	})
	p.reg("(*sync.Once).Do", func(ex *Exec, fr *Frame, args []Value) Value {
		o := ex.sideOf(args[0].(*Value), func() interface{} { return &onceState{} }).(*onceState)
		ex.schedule("once")
		switch o.state {
		case 2:
			return nil
		case 1:
			ex.block(func() bool { return o.state == 2 }, "Once.Do (waiting for first caller) at "+ex.posOf(fr, fr.callPos), fr, fr.callPos)
			return nil
		}
		o.state = 1
		defer func() { o.state = 2 }()
		ex.call(fr, fr.callPos, args[1], nil)
		return nil
	})

	// ---- sync.Map ----
	smap := func(ex *Exec, v Value) *MapV {
		return ex.sideOf(v.(*Value), func() interface{} {
			return &MapV{keyT: types.NewInterfaceType(nil, nil), index: map[string]int{}}
		}).(*MapV)
	}
	p.reg("(*sync.Map).Load", func(ex *Exec, fr *Frame, args []Value) Value {
		ex.schedule("syncmap")
		if e := ex.mapFind(smap(ex, args[0]), args[1]); e != nil {
			return Tuple{e.val, tTrue}
		}
		return Tuple{Iface{}, tFalse}
	})
	p.reg("(*sync.Map).Store", func(ex *Exec, fr *Frame, args []Value) Value {
		ex.schedule("syncmap")
		ex.mapUpdate(fr, smap(ex, args[0]), args[1], args[2])
		return nil
	})
	p.reg("(*sync.Map).LoadOrStore", func(ex *Exec, fr *Frame, args []Value) Value {
		ex.schedule("syncmap")
		m := smap(ex, args[0])
		if e := ex.mapFind(m, args[1]); e != nil {
			return Tuple{e.val, tTrue}
		}
		ex.mapUpdate(fr, m, args[1], args[2])
		return Tuple{args[2], tFalse}
	})
	p.reg("(*sync.Map).LoadAndDelete", func(ex *Exec, fr *Frame, args []Value) Value {
		ex.schedule("syncmap")
		m := smap(ex, args[0])
		if e := ex.mapFind(m, args[1]); e != nil {
			v := e.val
			ex.mapDelete(m, args[1])
			return Tuple{v, tTrue}
		}
		return Tuple{Iface{}, tFalse}
	})
	p.reg("(*sync.Map).Delete", func(ex *Exec, fr *Frame, args []Value) Value {
		ex.schedule("syncmap")
		ex.mapDelete(smap(ex, args[0]), args[1])
		return nil
	})
	p.reg("(*sync.Map).Range", func(ex *Exec, fr *Frame, args []Value) Value {
		ex.schedule("syncmap")
		m := smap(ex, args[0])
		snap := append([]*mapEntry{}, m.entries...)
		for _, e := range snap {
			if !e.alive {
				continue
			}
			r := ex.call(fr, fr.callPos, args[1], []Value{e.key, e.val})
			if !ex.branch(r.(*Term), "syncmap-range") {
				break
			}
		}
		return nil
	})

	// ---- sync/atomic functions ----
	for _, ty := range []struct {
		name string
		w    int
	}{{"Int32", 32}, {"Uint32", 32}, {"Int64", 64}, {"Uint64", 64}, {"Uintptr", 64}} {
		w := ty.w
		_ = w
		p.reg("sync/atomic.Load"+ty.name, func(ex *Exec, fr *Frame, args []Value) Value {
			ex.schedule("atomic")
			return *ex.nonNil(fr, args[0])
		})
		p.reg("sync/atomic.Store"+ty.name, func(ex *Exec, fr *Frame, args []Value) Value {
			ex.schedule("atomic")
			*ex.nonNil(fr, args[0]) = args[1]
			return nil
		})
		p.reg("sync/atomic.Add"+ty.name, func(ex *Exec, fr *Frame, args []Value) Value {
			ex.schedule("atomic")
			c := ex.nonNil(fr, args[0])
			n := mkBin(OpAdd, (*c).(*Term), args[1].(*Term))
			*c = n
			return n
		})
		p.reg("sync/atomic.Swap"+ty.name, func(ex *Exec, fr *Frame, args []Value) Value {
			ex.schedule("atomic")
			c := ex.nonNil(fr, args[0])
			old := *c
			*c = args[1]
			return old
		})
		p.reg("sync/atomic.CompareAndSwap"+ty.name, func(ex *Exec, fr *Frame, args []Value) Value {
			ex.schedule("atomic")
			c := ex.nonNil(fr, args[0])
			eq := mkEq((*c).(*Term), args[1].(*Term))
			if ex.branch(eq, "cas") {
				*c = args[2]
				return tTrue
			}
			return tFalse
		})
		p.reg("sync/atomic.And"+ty.name, func(ex *Exec, fr *Frame, args []Value) Value {
			ex.schedule("atomic")
			c := ex.nonNil(fr, args[0])
			old := (*c).(*Term)
			*c = mkBin(OpBAnd, old, args[1].(*Term))
			return old
		})
		p.reg("sync/atomic.Or"+ty.name, func(ex *Exec, fr *Frame, args []Value) Value {
			ex.schedule("atomic")
			c := ex.nonNil(fr, args[0])
			old := (*c).(*Term)
			*c = mkBin(OpBOr, old, args[1].(*Term))
			return old
		})
	}
	// atomic.Pointer[T]: the value lives in field 2 ("v")
	ptrField := func(ex *Exec, fr *Frame, recv Value) *Value {
		c := ex.nonNil(fr, recv)
		s := (*c).(Struct)
		return &s[len(s)-1]
	}
	asPtr := func(v Value) *Value {
		if p, ok := v.(*Value); ok {
			return p
		}
		return nil
	}
	p.reg("(*sync/atomic.Pointer[T]).Load", func(ex *Exec, fr *Frame, args []Value) Value {
		ex.schedule("atomic")
		return asPtr(*ptrField(ex, fr, args[0]))
	})
	p.reg("(*sync/atomic.Pointer[T]).Store", func(ex *Exec, fr *Frame, args []Value) Value {
		ex.schedule("atomic")
		*ptrField(ex, fr, args[0]) = args[1]
		ex.atomicStores = append(ex.atomicStores, args[1])
		return nil
	})
	p.reg("(*sync/atomic.Pointer[T]).Swap", func(ex *Exec, fr *Frame, args []Value) Value {
		ex.schedule("atomic")
		f := ptrField(ex, fr, args[0])
		old := asPtr(*f)
		*f = args[1]
		return old
	})
	p.reg("(*sync/atomic.Pointer[T]).CompareAndSwap", func(ex *Exec, fr *Frame, args []Value) Value {
		ex.schedule("atomic")
		f := ptrField(ex, fr, args[0])
		if asPtr(*f) == asPtr(args[1]) {
			*f = args[2]
			return tTrue
		}
		return tFalse
	})
	// atomic.Value: field 0 ("v any")
	p.reg("(*sync/atomic.Value).Load", func(ex *Exec, fr *Frame, args []Value) Value {
		ex.schedule("atomic")
		c := ex.nonNil(fr, args[0])
		return (*c).(Struct)[0]
	})
	p.reg("(*sync/atomic.Value).Store", func(ex *Exec, fr *Frame, args []Value) Value {
		ex.schedule("atomic")
		c := ex.nonNil(fr, args[0])
		if args[1].(Iface).t == nil {
			ex.throwMsg(fr, fr.callPos, "sync/atomic: store of nil value into Value")
		}
		(*c).(Struct)[0] = args[1]
		return nil
	})
	p.reg("(*sync/atomic.Value).Swap", func(ex *Exec, fr *Frame, args []Value) Value {
		ex.schedule("atomic")
		c := ex.nonNil(fr, args[0])
		old := (*c).(Struct)[0]
		(*c).(Struct)[0] = args[1]
		return old
	})
	p.reg("(*sync/atomic.Value).CompareAndSwap", func(ex *Exec, fr *Frame, args []Value) Value {
		ex.schedule("atomic")
		c := ex.nonNil(fr, args[0])
		cur := (*c).(Struct)[0].(Iface)
		eq := ex.equals(types.NewInterfaceType(nil, nil), cur, args[1])
		if ex.branch(eq, "cas") {
			(*c).(Struct)[0] = args[2]
			return tTrue
		}
		return tFalse
	})
	p.reg("sync/atomic.LoadPointer", func(ex *Exec, fr *Frame, args []Value) Value {
		ex.unsupported("atomic.LoadPointer")
		return nil
	})
}

func (ex *Exec) nonNil(fr *Frame, v Value) *Value {
	p, ok := v.(*Value)
	if !ok {
		ex.unsupported("atomic operation on %T", v)
	}
	if p == nil {
		ex.throwMsg(fr, 0, "invalid memory address or nil pointer dereference")
	}
	return p
}

func (ex *Exec) modelOrCheck() map[string]uint64 {
	if ex.model != nil {
		return ex.model
	}
	if len(ex.pc) == 0 {
		return map[string]uint64{}
	}
	_, m := ex.solver.Check(nil, true)
	return m
}

type lockEvent struct {
	m  *mutexState
	op int
}

var _ = fmt.Sprint

// chanqueue.New[T]: contract model = one unbounded FIFO channel serving as both
// input and output (In never blocks, Out yields in order, closing In closes Out
// after the queue drains). The real implementation runs a buffering goroutine.
func init() {
	extraIntrinsics = append(extraIntrinsics, func(p *Program) {
		mk := func(ex *Exec, fr *Frame, args []Value) Value {
			pt := fr.fn.Signature.Results().At(0).Type()
			st := deref(pt)
			q := zero(st).(Struct)
			ex.setField(q, st, "capacity", mkConst(64, ^uint64(0)))
			var cell Value = q
			// options are closures over *ChanQueue: run them (WithCapacity bounds
			// the queue, WithBaseCapacity only pre-sizes it)
			if args[0] != nil {
				if opts, ok := args[0].([]Value); ok {
					for _, o := range opts {
						ex.call(fr, fr.callPos, o, []Value{&cell})
					}
				}
			}
			q = cell.(Struct)
			if in := ex.getField(q, st, "input"); in != nil {
				if c, ok := in.(*Chan); ok && c != nil {
					ex.unsupported("chanqueue.New with a caller-supplied channel")
				}
			}
			capacity := 1 << 30
			if c, ok := ex.getField(q, st, "capacity").(*Term); ok && c.IsConst() && int64(c.val) > 0 {
				capacity = int(int64(c.val)) // exactly this many items are buffered; then In() blocks
			}
			var elem types.Type
			if ta := fr.fn.TypeArgs(); len(ta) > 0 {
				elem = ta[0]
			}
			ex.nextChanID++
			ch := &Chan{id: ex.nextChanID, cap: capacity, elemT: elem}
			ex.setField(q, st, "input", ch)
			ex.setField(q, st, "inRdWr", ch)
			ex.setField(q, st, "output", ch)
			cell = q
			return &cell
		}
		p.reg("github.com/gammazero/chanqueue.New", mk)
		p.reg("github.com/gammazero/chanqueue.New[T]", mk)
	})
}
