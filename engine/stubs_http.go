package main

// Model of the parts of net/http the ipnisync client uses. The network is a
// harness-supplied http.RoundTripper installed in http.Client.Transport
// (works natively as well): Client.Do = Transport.RoundTrip, with transport
// errors wrapped in *url.Error as the real client does.

import (
	"go/types"
	"net/textproto"
	"strings"
)

func structFieldIndex(t types.Type, name string) int {
	st := t.Underlying().(*types.Struct)
	for i := 0; i < st.NumFields(); i++ {
		if st.Field(i).Name() == name {
			return i
		}
	}
	return -1
}

func (ex *Exec) setField(s Struct, t types.Type, name string, v Value) {
	i := structFieldIndex(t, name)
	if i < 0 {
		ex.unsupported("no field %s in %v", name, t)
	}
	s[i] = v
}

func (ex *Exec) getField(s Struct, t types.Type, name string) Value {
	i := structFieldIndex(t, name)
	if i < 0 {
		ex.unsupported("no field %s in %v", name, t)
	}
	return s[i]
}

func canonicalHeaderKey(ex *Exec, v Value) Value {
	if s, ok := v.(string); ok {
		return textproto.CanonicalMIMEHeaderKey(s)
	}
	return v
}

func init() {
	extraIntrinsics = append(extraIntrinsics, func(p *Program) {
		p.reg("net/http.NewRequestWithContext", func(ex *Exec, fr *Frame, args []Value) Value {
			reqT := ex.p.namedType("net/http", "Request")
			parse := ex.p.funcByName("net/url", "Parse")
			res := ex.callSSA(fr, fr.callPos, parse, []Value{args[2]}, nil).(Tuple)
			if e := res[1].(Iface); e.t != nil {
				return Tuple{(*Value)(nil), e}
			}
			if c, ok := args[0].(Iface); !ok || c.t == nil {
				return Tuple{(*Value)(nil), ex.newErrorString("net/http: nil Context")}
			}
			req := zero(reqT).(Struct)
			ex.setField(req, reqT, "Method", args[1])
			ex.setField(req, reqT, "URL", res[0])
			ex.setField(req, reqT, "Header", &MapV{keyT: types.Typ[types.String], index: map[string]int{}})
			ex.setField(req, reqT, "ctx", args[0])
			ex.setField(req, reqT, "Body", args[3])
			var cell Value = req
			return Tuple{&cell, Iface{}}
		})
		p.reg("(*net/http.Request).Context", func(ex *Exec, fr *Frame, args []Value) Value {
			reqT := ex.p.namedType("net/http", "Request")
			req := (*ex.nonNil(fr, args[0])).(Struct)
			return ex.getField(req, reqT, "ctx")
		})
		p.reg("(net/http.Header).Set", func(ex *Exec, fr *Frame, args []Value) Value {
			m := args[0].(*MapV)
			if m == nil {
				ex.throwMsg(fr, fr.callPos, "assignment to entry in nil map")
			}
			ex.mapUpdate(fr, m, canonicalHeaderKey(ex, args[1]), []Value{args[2]})
			return nil
		})
		p.reg("(net/http.Header).Add", func(ex *Exec, fr *Frame, args []Value) Value {
			m := args[0].(*MapV)
			if m == nil {
				ex.throwMsg(fr, fr.callPos, "assignment to entry in nil map")
			}
			k := canonicalHeaderKey(ex, args[1])
			if e := ex.mapFind(m, k); e != nil {
				e.val = append(append([]Value{}, e.val.([]Value)...), args[2])
			} else {
				ex.mapUpdate(fr, m, k, []Value{args[2]})
			}
			return nil
		})
		p.reg("(net/http.Header).Get", func(ex *Exec, fr *Frame, args []Value) Value {
			m := args[0].(*MapV)
			if e := ex.mapFind(m, canonicalHeaderKey(ex, args[1])); e != nil {
				if vs := e.val.([]Value); len(vs) > 0 {
					return vs[0]
				}
			}
			return ""
		})
		p.reg("(net/http.Header).Values", func(ex *Exec, fr *Frame, args []Value) Value {
			m := args[0].(*MapV)
			if e := ex.mapFind(m, canonicalHeaderKey(ex, args[1])); e != nil {
				return e.val
			}
			return []Value(nil)
		})
		p.reg("(net/http.Header).Del", func(ex *Exec, fr *Frame, args []Value) Value {
			ex.mapDelete(args[0].(*MapV), canonicalHeaderKey(ex, args[1]))
			return nil
		})
		p.reg("(*net/http.Client).CloseIdleConnections", func(ex *Exec, fr *Frame, args []Value) Value { return nil })
		p.reg("(*net/http.Client).Do", func(ex *Exec, fr *Frame, args []Value) Value {
			cliT := ex.p.namedType("net/http", "Client")
			reqT := ex.p.namedType("net/http", "Request")
			cli := (*ex.nonNil(fr, args[0])).(Struct)
			tr := ex.getField(cli, cliT, "Transport").(Iface)
			if tr.t == nil {
				// as the real client: fall back to http.DefaultTransport, which a harness
				// may have replaced by its model network
				if dv := ex.p.prog.ImportedPackage("net/http").Var("DefaultTransport"); dv != nil {
					if d, ok := (*ex.globalAddr(dv)).(Iface); ok && d.t != nil {
						if _, isReal := d.v.(*Value); isReal && strings.Contains(d.t.String(), "net/http.Transport") {
							ex.unsupported("http.Client.Do on the real http.Transport: the real network is not modelled")
						}
						tr = d
					}
				}
			}
			if tr.t == nil {
				ex.unsupported("http.Client.Do without a Transport: the real network is not modelled")
			}
			reqCell := ex.nonNil(fr, args[1])
			req := (*reqCell).(Struct)
			// a cancelled request context fails before the transport is used
			if ctx, ok := ex.getField(req, reqT, "ctx").(Iface); ok && ctx.t != nil {
				cerr := ex.invoke(fr, ctx, "Err")
				if e := cerr.(Iface); e.t != nil {
					return Tuple{(*Value)(nil), ex.urlError(fr, req, reqT, e)}
				}
			}
			res := ex.invoke(fr, tr, "RoundTrip", args[1]).(Tuple)
			if e := res[1].(Iface); e.t != nil {
				return Tuple{(*Value)(nil), ex.urlError(fr, req, reqT, e)}
			}
			rp, _ := res[0].(*Value)
			if rp == nil {
				return Tuple{(*Value)(nil), ex.urlError(fr, req, reqT, ex.newErrorString("http: RoundTripper implementation returned a nil *Response with a nil error").(Iface))}
			}
			return Tuple{rp, Iface{}}
		})
	})
}

func (ex *Exec) urlError(fr *Frame, req Struct, reqT types.Type, inner Iface) Value {
	ueT := ex.p.namedType("net/url", "Error")
	ue := zero(ueT).(Struct)
	ex.setField(ue, ueT, "Op", "Get")
	ex.setField(ue, ueT, "URL", "<url>")
	ex.setField(ue, ueT, "Err", inner)
	var cell Value = ue
	return Iface{t: types.NewPointer(ueT), v: &cell}
}

// libp2phttp discovery (well-known endpoint over the network) is not modelled:
// NamespacedClient reports that the peer is not a libp2p-HTTP server, which is
// the documented trigger of the plain-HTTP fallback in ipnisync.NewSyncer.
func init() {
	extraIntrinsics = append(extraIntrinsics, func(p *Program) {
		p.reg("(*github.com/libp2p/go-libp2p/p2p/http.Host).NamespacedClient", func(ex *Exec, fr *Frame, args []Value) Value {
			ct := ex.p.namedType("net/http", "Client")
			return Tuple{zero(ct), ex.newErrorString("model: peer does not serve the libp2p well-known resource")}
		})
	})
}
