package main

// Contract model of go-libp2p-pubsub for the announce receiver's watcher:
// Topic.Subscribe returns a subscription whose Next blocks until a message was
// delivered to it (by the harness primitive verif_PubsubDeliver), it was
// cancelled, or the caller's context is done. Topic.Publish records the bytes.
// Symbolic runs only: there is no native counterpart without a libp2p host.

import (
	"go/types"
)

type subState struct {
	queue     []Value // *pubsub.Message cells
	cancelled bool
}

type topicState struct {
	published [][]Value
	closed    bool
}

func init() {
	extraIntrinsics = append(extraIntrinsics, func(p *Program) {
		const ps = "github.com/libp2p/go-libp2p-pubsub"
		sub := func(ex *Exec, v Value) *subState {
			return ex.sideOf(v.(*Value), func() interface{} { return &subState{} }).(*subState)
		}
		topic := func(ex *Exec, v Value) *topicState {
			return ex.sideOf(v.(*Value), func() interface{} { return &topicState{} }).(*topicState)
		}
		p.reg("(*"+ps+".Topic).Subscribe", func(ex *Exec, fr *Frame, args []Value) Value {
			st := ex.p.namedType(ps, "Subscription")
			var cell Value = zero(st)
			sub(ex, &cell)
			return Tuple{&cell, Iface{}}
		})
		p.reg("(*"+ps+".Topic).Close", func(ex *Exec, fr *Frame, args []Value) Value {
			if ex.topicCloseFails {
				// documented failure of Topic.Close: outstanding handlers/subscriptions
				return ex.newErrorString("cannot close topic: outstanding event handlers or subscriptions")
			}
			topic(ex, ex.nonNil(fr, args[0])).closed = true
			return Iface{}
		})
		// announce/gossiptopic.MakeTopic creates a gossipsub on a libp2p host and
		// joins the topic: modelled as joining a fresh model topic; the returned
		// cancel function (pubsub shutdown) does nothing
		p.reg("github.com/ipni/go-libipni/announce/gossiptopic.MakeTopic", func(ex *Exec, fr *Frame, args []Value) Value {
			tt := ex.p.namedType(ps, "Topic")
			var cell Value = zero(tt)
			topic(ex, &cell)
			return Tuple{&cell, &Native{name: "pubsub-cancel", fn: func(ex *Exec, args []Value) Value { return nil }}, Iface{}}
		})
		p.reg("verif_PubsubTopicCloseFails", func(ex *Exec, fr *Frame, args []Value) Value {
			ex.topicCloseFails = args[0].(*Term).IsConst() && args[0].(*Term).val != 0
			return nil
		})
		p.reg("(*"+ps+".Topic).String", func(ex *Exec, fr *Frame, args []Value) Value { return "/model/topic" })
		p.reg("verif_PubsubPublishFails", func(ex *Exec, fr *Frame, args []Value) Value {
			ex.publishFails = args[0].(*Term).IsConst() && args[0].(*Term).val != 0
			return nil
		})
		p.reg("(*"+ps+".Topic).Publish", func(ex *Exec, fr *Frame, args []Value) Value {
			if ex.publishFails {
				// documented failures of Publish: closed topic, validation failure, no router
				ex.nonNil(fr, args[0])
				return ex.newErrorString("model: pubsub publish failed")
			}
			t := topic(ex, ex.nonNil(fr, args[0]))
			data, _ := args[2].([]Value)
			// (as the library: the message keeps the caller's slice, it is not copied —
			// a caller that reuses the buffer rewrites what is still queued)
			t.published = append(t.published, data)
			return Iface{}
		})
		p.reg("(*"+ps+".Subscription).Cancel", func(ex *Exec, fr *Frame, args []Value) Value {
			ex.schedule("sub.Cancel")
			if ex.pubsubStopped {
				// as the library: once the pubsub instance's context is done, Cancel
				// returns without doing anything and the subscription is never closed
				ex.nonNil(fr, args[0])
				return nil
			}
			sub(ex, ex.nonNil(fr, args[0])).cancelled = true
			return nil
		})
		p.reg("verif_PubsubStopped", func(ex *Exec, fr *Frame, args []Value) Value {
			ex.pubsubStopped = args[0].(*Term).IsConst() && args[0].(*Term).val != 0
			return nil
		})
		p.reg("(*"+ps+".Subscription).Next", func(ex *Exec, fr *Frame, args []Value) Value {
			s := sub(ex, ex.nonNil(fr, args[0]))
			// the context's Done channel is obtained once, in the caller's thread
			var done *Chan
			if d := ex.invoke(fr, args[1], "Done"); d != nil {
				done, _ = d.(*Chan)
			}
			ex.schedule("sub.Next")
			ready := func() bool {
				return len(s.queue) > 0 || s.cancelled || (done != nil && done.closed)
			}
			if !ready() {
				ex.block(ready, "pubsub Subscription.Next at "+ex.posOf(fr, fr.callPos), fr, fr.callPos)
			}
			if len(s.queue) > 0 {
				m := s.queue[0]
				s.queue = s.queue[1:]
				return Tuple{m, Iface{}}
			}
			if s.cancelled {
				g := ex.p.prog.ImportedPackage(ps).Var("ErrSubscriptionCancelled")
				return Tuple{(*Value)(nil), *ex.globalAddr(g)}
			}
			cerr := ex.invoke(fr, args[1], "Err")
			return Tuple{(*Value)(nil), cerr}
		})
		// verif_PubsubDeliver(sub *pubsub.Subscription, from []byte, data []byte)
		unwrap := func(v Value) Value {
			if itf, ok := v.(Iface); ok {
				return itf.v
			}
			return v
		}
		p.reg("verif_PubsubDeliver", func(ex *Exec, fr *Frame, args []Value) Value {
			s := sub(ex, ex.nonNil(fr, unwrap(args[0])))
			mt := ex.p.namedType(ps, "Message")
			pbt := ex.p.namedType(ps+"/pb", "Message")
			pbm := zero(pbt).(Struct)
			ex.setField(pbm, pbt, "From", args[1])
			ex.setField(pbm, pbt, "Data", args[2])
			var pbCell Value = pbm
			m := zero(mt).(Struct)
			m[0] = &pbCell
			// the last hop that forwarded the message is some other peer than its author
			ex.setField(m, mt, "ReceivedFrom", "forwarding-neighbour")
			var cell Value = m
			s.queue = append(s.queue, &cell)
			ex.schedule("pubsub.deliver")
			return nil
		})
		// verif_PubsubPublished(topic *pubsub.Topic) [][]byte
		p.reg("verif_PubsubPublished", func(ex *Exec, fr *Frame, args []Value) Value {
			t := topic(ex, ex.nonNil(fr, unwrap(args[0])))
			out := make([]Value, len(t.published))
			for i, d := range t.published {
				out[i] = d
			}
			return out
		})
		_ = types.Typ
	})
}
