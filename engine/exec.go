package main

// One symbolic execution of a harness along one decision vector.

import (
	"fmt"
	"go/token"
	"os"
	"runtime/debug"
	"slices"
	"strings"

	"golang.org/x/tools/go/ssa"
)

// ---- path termination signals (Go panics inside the engine) ----

type targetPanic struct {
	v   Value
	msg string // for runtime errors: human text
	pos token.Position
}

type abortPath struct {
	kind string // "assume", "unsupported", "budget", "killed", "stop"
	msg  string
}

type deferred struct {
	fn    Value
	args  []Value
	instr *ssa.Defer
	tail  *deferred
}

type Frame struct {
	ex               *Exec
	th               *Thread
	caller           *Frame
	fn               *ssa.Function
	block, prevBlock *ssa.BasicBlock
	env              map[ssa.Value]Value
	locals           []Value
	defers           *deferred
	result           Value
	panicking        bool
	panic            interface{}
	phitemps         []Value
	depth            int
	callPos          token.Pos
	initFrame        bool
	merged           map[*ssa.Phi]bool
}

type NondetRec struct {
	Kind  string   `json:"kind"`
	Label string   `json:"label"`
	W     int      `json:"w,omitempty"`
	Terms []*Term  `json:"-"`
	Vals  []uint64 `json:"vals"`
}

type Obligation struct {
	Label   string
	Pos     string
	Result  string // "unsat" (holds), "sat" (violated), "unknown", "concrete-true", "concrete-false"
	Model   map[string]uint64
	CondStr string
}

type Violation struct {
	Kind    string         `json:"kind"` // "assert", "panic", "alloc", "deadlock", "race"
	Label   string         `json:"label"`
	Pos     string         `json:"pos"`
	Msg     string         `json:"msg"`
	Nondet  []NondetRec    `json:"nondet"`
	Trace   []int          `json:"decisions"`
	Ghost   []string       `json:"ghost,omitempty"`
	Sched   []int          `json:"sched,omitempty"`
	Harness string         `json:"harness"`
	Extra   map[string]any `json:"extra,omitempty"`
}

type PathResult struct {
	Trace        []int
	Alts         [][]int
	End          string // "ok", "panic", "assume", "unsupported", "budget", "deadlock"
	EndMsg       string
	Obligations  []Obligation
	Violations   []Violation
	Reached      map[string]bool
	ReachModels  map[string][]NondetRec
	Steps        int
	Decisions    int
	SymDecisions int
	Funcs        map[*ssa.Function]bool
	Stubs        map[string]int
	Inconclusive []string
	States       int
	Transitions  int
	Observes     []string
	InitFails    []string
	Merges       int
	Cuts         []string
}

type Exec struct {
	p      *Program
	solver *Solver
	cfg    *HarnessCfg

	prefix []int
	pos    int
	trace  []int
	alts   [][]int

	pc        []*Term
	model     map[string]uint64 // model of pc, or nil if unknown
	pcUnknown bool              // some feasibility check came back unknown

	globals   map[*ssa.Global]*Value
	inited    map[*ssa.Package]bool
	initDepth int

	nondet      []NondetRec
	nvar        int
	steps       int
	symDec      int
	res         *PathResult
	allocCap    int64
	ghost       []string
	expectPanic int

	// concurrency (sched.go)
	threads    []*Thread
	cur        *Thread
	preempts   int
	schedLog   []int
	nextChanID int
	side       map[*Value]interface{} // model-object side tables keyed by cell
	sideKeys   []*Value

	ufCalls         map[string][]ufCall // Ackermann-free: we use real UFs; this records calls for replay realisation
	errCount        int
	uniq            int
	lastFrame       *Frame
	lastInstr       ssa.Instruction
	clock           *Term
	timers          []timerRec
	pools           map[*Value][]Value // sync.Pool contents
	race            *raceState
	fmtDepth        int // formatter model: nesting depth and symbolic pieces of the call in progress
	fmtSyms         [][]*Term
	pubsubStopped   bool            // pubsub model: the owner stopped pubsub; Subscription.Cancel is a no-op
	recordReg       map[string]bool // libp2p record types registered on this path
	publishFails    bool            // pubsub model: Topic.Publish fails
	topicCloseFails bool            // pubsub model: Topic.Close reports outstanding subscriptions
	seals           []*sealRec
	hashFacts       []hashFact
	hashApps        []hashFact
	signs           []*signRec
	verifies        []*signRec
	nkeys           int
	seqCounter      int
	lockEvents      []lockEvent
	atomicStores    []Value
	killed          bool
	pendingAbort    interface{}
	deadlock        bool
	harnessFn       *ssa.Function
}

type ufCall struct {
	args []*Term
	out  []*Term
}

func (ex *Exec) unsupported(format string, a ...interface{}) {
	where := ""
	if ex.lastFrame != nil && ex.lastInstr != nil {
		where = fmt.Sprintf(" [in %s at %s]", ex.lastFrame.fn, ex.posOf(ex.lastFrame, ex.lastInstr.Pos()))
		if os.Getenv("GOSYM_DEBUG") != "" {
			for f := ex.lastFrame; f != nil; f = f.caller {
				fmt.Fprintf(os.Stderr, "   at %s\n", f.fn)
			}
		}
	}
	panic(abortPath{"unsupported", fmt.Sprintf(format, a...) + where})
}

// ---- decisions ----

// choose picks one of the options whose guard is feasible with the path
// condition. guards[i]==nil means "true". Exhaustiveness is the caller's
// responsibility. Alternatives are queued for later exploration.
func (ex *Exec) choose(kind string, guards []*Term) int {
	n := len(guards)
	if n == 0 {
		panic("choose: no options")
	}
	ex.res.Decisions++
	if ex.pos < len(ex.prefix) {
		c := ex.prefix[ex.pos]
		ex.pos++
		ex.trace = append(ex.trace, c)
		if c >= n {
			panic(fmt.Sprintf("engine: non-deterministic replay (choice %d of %d at %s)", c, n, kind))
		}
		if g := guards[c]; g != nil && !g.IsConst() {
			ex.addPC(g, nil)
		} else if g != nil && g.val == 0 {
			panic("engine: replayed choice has false guard")
		}
		return c
	}
	ex.pos++
	ex.symDec++
	if ex.symDec > ex.cfg.MaxDecisions {
		panic(abortPath{"budget", fmt.Sprintf("more than %d symbolic decisions on one path (unwinding bound)", ex.cfg.MaxDecisions)})
	}
	chosen := -1
	var chosenModel map[string]uint64
	chosenKnown := false
	for i, g := range guards {
		feasible := false
		var m map[string]uint64
		known := false
		switch {
		case g == nil || (g.IsConst() && g.val != 0):
			feasible, m, known = true, ex.model, ex.model != nil
		case g.IsConst():
			feasible = false
		default:
			if ex.model != nil {
				if v, ok := evalTerm(g, ex.model, map[*Term]uint64{}); ok && v != 0 {
					feasible, m, known = true, ex.model, true
				}
			}
			if !feasible {
				// skip the solver when all other options are known infeasible
				r, mm := ex.solver.Check(g, true)
				switch r {
				case Sat:
					feasible, m, known = true, mm, mm != nil
				case Unknown:
					feasible = true
					ex.pcUnknown = true
					ex.res.Inconclusive = append(ex.res.Inconclusive, "solver unknown on branch feasibility at "+kind)
				}
			}
		}
		if !feasible {
			continue
		}
		if chosen < 0 {
			chosen, chosenModel, chosenKnown = i, m, known
		} else {
			alt := make([]int, len(ex.trace)+1)
			copy(alt, ex.trace)
			alt[len(ex.trace)] = i
			ex.alts = append(ex.alts, alt)
		}
	}
	if chosen < 0 {
		// path condition itself infeasible (can happen after unknown)
		panic(abortPath{"assume", "no feasible option at " + kind})
	}
	ex.trace = append(ex.trace, chosen)
	if g := guards[chosen]; g != nil && !g.IsConst() {
		if chosenKnown {
			ex.addPC(g, chosenModel)
		} else {
			ex.addPC(g, nil)
		}
	}
	return chosen
}

func (ex *Exec) addPC(g *Term, model map[string]uint64) {
	ex.pc = append(ex.pc, g)
	ex.solver.Assert(g)
	ex.model = model
}

// branch decides a boolean condition.
func (ex *Exec) branch(c *Term, where string) bool {
	if c.IsConst() {
		return c.val != 0
	}
	return ex.choose(where, []*Term{c, mkNot(c)}) == 0
}

// concretize forks over the feasible values of t (bounded).
func (ex *Exec) concretize(t *Term, where string) uint64 {
	if t.IsConst() {
		return t.val
	}
	for n := 0; ; n++ {
		if n > ex.cfg.MaxConcretize {
			loc := ""
			if ex.lastFrame != nil && ex.lastInstr != nil {
				loc = fmt.Sprintf(" [in %s at %s]", ex.lastFrame.fn, ex.posOf(ex.lastFrame, ex.lastInstr.Pos()))
			}
			panic(abortPath{"budget", fmt.Sprintf("more than %d values when concretizing at %s%s", ex.cfg.MaxConcretize, where, loc)})
		}
		var v uint64
		if ex.pos < len(ex.prefix) {
			// replay: the candidate values must be regenerated deterministically;
			// they are stored in the trace as value+2 (0/1 reserved)
			enc := ex.prefix[ex.pos]
			ex.pos++
			ex.trace = append(ex.trace, enc)
			ex.res.Decisions++
			if enc >= 0 {
				v = uint64(enc)
				ex.addPC(mkEq(t, mkConst(t.w, v)), nil)
				return v
			}
			// negative: excluded value -(enc+1)
			v = uint64(-(enc + 1))
			ex.addPC(mkNot(mkEq(t, mkConst(t.w, v))), nil)
			continue
		}
		// need a model value
		ok := false
		if ex.model != nil {
			if mv, ok2 := evalTerm(t, ex.model, map[*Term]uint64{}); ok2 {
				v, ok = mv, true
			}
		}
		if !ok {
			r, m := ex.solver.Check(nil, true)
			if r != Sat || m == nil {
				if r == Unsat {
					panic(abortPath{"assume", "infeasible at concretize"})
				}
				panic(abortPath{"unsupported", "solver unknown while concretizing at " + where})
			}
			ex.model = m
			mv, ok2 := evalTerm(t, m, map[*Term]uint64{})
			if !ok2 {
				mv, ok2 = ex.solver.EvalIn(t)
				ex.model = nil
				if !ok2 {
					panic(abortPath{"unsupported", "cannot evaluate term with uninterpreted function when concretizing at " + where})
				}
			}
			v = mv
		}
		if v > 1<<30 {
			panic(abortPath{"unsupported", fmt.Sprintf("concretize: value %d too large at %s", v, where)})
		}
		ex.res.Decisions++
		ex.pos++
		ex.symDec++
		eq := mkEq(t, mkConst(t.w, v))
		// queue alternative "t != v" if feasible
		r, _ := ex.solver.Check(mkNot(eq), false)
		if r != Unsat {
			if r == Unknown {
				ex.pcUnknown = true
				ex.res.Inconclusive = append(ex.res.Inconclusive, "solver unknown while concretizing at "+where)
			}
			alt := make([]int, len(ex.trace)+1)
			copy(alt, ex.trace)
			alt[len(ex.trace)] = -int(v) - 1
			ex.alts = append(ex.alts, alt)
		}
		ex.trace = append(ex.trace, int(v))
		ex.addPC(eq, ex.model)
		return v
	}
}

// pickOne fixes t to a single feasible value without queueing the others.
// This is a recorded cut (incomplete by design): used only where behaviour
// is uniform in t, e.g. allocation lengths larger than the whole input.
func (ex *Exec) pickOne(t *Term, where string) uint64 {
	if t.IsConst() {
		return t.val
	}
	ex.res.Decisions++
	if ex.pos < len(ex.prefix) {
		enc := ex.prefix[ex.pos]
		ex.pos++
		ex.trace = append(ex.trace, enc)
		ex.addPC(mkEq(t, mkConst(t.w, uint64(enc))), nil)
		return uint64(enc)
	}
	var v uint64
	ok := false
	if ex.model != nil {
		if mv, ok2 := evalTerm(t, ex.model, map[*Term]uint64{}); ok2 {
			v, ok = mv, true
		}
	}
	if !ok {
		r, m := ex.solver.Check(nil, true)
		if r != Sat || m == nil {
			if r == Unsat {
				panic(abortPath{"assume", "infeasible at pickOne"})
			}
			panic(abortPath{"unsupported", "solver unknown in pickOne at " + where})
		}
		ex.model = m
		mv, ok2 := evalTerm(t, m, map[*Term]uint64{})
		if !ok2 {
			mv, ok2 = ex.solver.EvalIn(t)
			ex.model = nil
			if !ok2 {
				panic(abortPath{"unsupported", "cannot evaluate term in pickOne at " + where})
			}
		}
		v = mv
	}
	if v > 1<<30 {
		panic(abortPath{"unsupported", fmt.Sprintf("pickOne: value %d too large at %s", v, where)})
	}
	ex.pos++
	ex.trace = append(ex.trace, int(v))
	ex.addPC(mkEq(t, mkConst(t.w, v)), ex.model)
	ex.res.Cuts = append(ex.res.Cuts, where)
	return v
}

// ---- assertions ----

func (ex *Exec) snapshotNondet(model map[string]uint64) []NondetRec {
	out := make([]NondetRec, len(ex.nondet))
	memo := map[*Term]uint64{}
	for i, r := range ex.nondet {
		nr := NondetRec{Kind: r.Kind, Label: r.Label, W: r.W}
		nr.Vals = make([]uint64, len(r.Terms))
		for j, t := range r.Terms {
			v, _ := evalTerm(t, model, memo)
			nr.Vals[j] = v
		}
		out[i] = nr
	}
	return out
}

func (ex *Exec) posOf(fr *Frame, pos token.Pos) string {
	for f := fr; f != nil && pos == token.NoPos; f = f.caller {
		pos = f.callPos
	}
	if pos == token.NoPos {
		return "?"
	}
	p := ex.p.prog.Fset.Position(pos)
	return fmt.Sprintf("%s:%d", strings.TrimPrefix(p.Filename, repoRoot), p.Line)
}

func (ex *Exec) recordViolation(kind, label, pos, msg string, model map[string]uint64) {
	if model == nil {
		model = map[string]uint64{}
	}
	v := Violation{Kind: kind, Label: label, Pos: pos, Msg: msg,
		Nondet: ex.snapshotNondet(model), Trace: slices.Clone(ex.trace),
		Ghost: slices.Clone(ex.ghost), Sched: slices.Clone(ex.schedLog), Harness: ex.cfg.Func}
	ex.res.Violations = append(ex.res.Violations, v)
}

// assertProp checks that cond holds on every completion of the current path.
func (ex *Exec) assertProp(cond *Term, label, pos string) {
	ob := Obligation{Label: label, Pos: pos}
	if cond.IsConst() {
		if cond.val != 0 {
			ob.Result = "concrete-true"
			ex.res.Obligations = append(ex.res.Obligations, ob)
			return
		}
		ob.Result = "concrete-false"
		m := ex.model
		if m == nil {
			r, mm := ex.solver.Check(nil, true)
			if r == Unsat {
				panic(abortPath{"assume", "infeasible at assert"})
			}
			m = mm
			ex.model = mm
		}
		ob.Model = m
		ex.res.Obligations = append(ex.res.Obligations, ob)
		ex.recordViolation("assert", label, pos, "assertion is false on this path", m)
		panic(abortPath{"stop", "assertion failed"})
	}
	ob.CondStr = termString(cond)
	r, m := ex.solver.Check(mkNot(cond), true)
	switch r {
	case Unsat:
		ob.Result = "unsat"
		ex.res.Obligations = append(ex.res.Obligations, ob)
		// cond is implied; no need to add it
	case Sat:
		ob.Result = "sat"
		ob.Model = m
		ex.res.Obligations = append(ex.res.Obligations, ob)
		ex.recordViolation("assert", label, pos, "assertion can be false: "+ob.CondStr, m)
		// continue under the assumption that it held
		r2, m2 := ex.solver.Check(cond, true)
		if r2 == Unsat {
			panic(abortPath{"stop", "assertion always fails here"})
		}
		ex.addPC(cond, m2)
	default:
		ob.Result = "unknown"
		ex.res.Obligations = append(ex.res.Obligations, ob)
		ex.res.Inconclusive = append(ex.res.Inconclusive, "solver unknown on assertion "+label+" at "+pos)
		ex.addPC(cond, nil)
	}
}

func (ex *Exec) assume(cond *Term) {
	if cond.IsConst() {
		if cond.val == 0 {
			panic(abortPath{"assume", "assume(false)"})
		}
		return
	}
	if ex.pos < len(ex.prefix) || ex.replaying() {
		ex.addPC(cond, nil)
		return
	}
	if ex.model != nil {
		if v, ok := evalTerm(cond, ex.model, map[*Term]uint64{}); ok && v != 0 {
			ex.addPC(cond, ex.model)
			return
		}
	}
	r, m := ex.solver.Check(cond, true)
	if r == Unsat {
		panic(abortPath{"assume", "assumption infeasible"})
	}
	if r == Unknown {
		ex.pcUnknown = true
		ex.res.Inconclusive = append(ex.res.Inconclusive, "solver unknown on assume")
	}
	ex.addPC(cond, m)
}

func (ex *Exec) replaying() bool { return ex.pos < len(ex.prefix) }

func (ex *Exec) reach(label string) {
	if ex.res.Reached[label] {
		return
	}
	// witness: path condition satisfiable
	m := ex.model
	if m == nil && len(ex.pc) > 0 {
		r, mm := ex.solver.Check(nil, true)
		if r != Sat {
			return
		}
		m = mm
		ex.model = mm
	}
	ex.res.Reached[label] = true
	if m == nil {
		m = map[string]uint64{}
	}
	ex.res.ReachModels[label] = ex.snapshotNondet(m)
}

// ---- nondet ----

func (ex *Exec) freshVar(prefix string, w int) *Term {
	ex.nvar++
	return mkVar(fmt.Sprintf("%s_%d", sanitize(prefix), ex.nvar), w)
}

func sanitize(s string) string {
	var b strings.Builder
	for _, c := range s {
		if c >= 'a' && c <= 'z' || c >= 'A' && c <= 'Z' || c >= '0' && c <= '9' || c == '_' {
			b.WriteRune(c)
		} else {
			b.WriteByte('_')
		}
	}
	if b.Len() == 0 {
		return "v"
	}
	return b.String()
}

func (ex *Exec) nondetScalar(kind, label string, w int) *Term {
	t := ex.freshVar(label, w)
	ex.nondet = append(ex.nondet, NondetRec{Kind: kind, Label: label, W: w, Terms: []*Term{t}})
	return t
}

// ---- running ----

func (ex *Exec) globalAddr(g *ssa.Global) *Value {
	if a, ok := ex.globals[g]; ok {
		return a
	}
	pkg := g.Pkg
	ex.allocGlobals(pkg)
	if !ex.inited[pkg] {
		ex.initPkg(pkg)
	}
	return ex.globals[g]
}

func (ex *Exec) allocGlobals(pkg *ssa.Package) {
	names := make([]string, 0, len(pkg.Members))
	for n, m := range pkg.Members {
		if _, ok := m.(*ssa.Global); ok {
			names = append(names, n)
		}
	}
	slices.Sort(names)
	for _, n := range names {
		g := pkg.Members[n].(*ssa.Global)
		if _, ok := ex.globals[g]; !ok {
			cell := zero(deref(g.Type()))
			ex.globals[g] = &cell
		}
	}
}

func (ex *Exec) initPkg(pkg *ssa.Package) {
	if ex.inited[pkg] {
		return
	}
	ex.inited[pkg] = true
	ex.allocGlobals(pkg)
	if ex.p.skipInit(pkg.Pkg.Path()) {
		return
	}
	initFn := pkg.Func("init")
	if initFn == nil {
		return
	}
	ex.initDepth++
	defer func() { ex.initDepth-- }()
	func() {
		defer func() {
			if r := recover(); r != nil {
				if a, ok := r.(abortPath); ok && (a.kind == "killed" || a.kind == "budget") {
					panic(r)
				}
				ex.res.InitFails = append(ex.res.InitFails, fmt.Sprintf("%s: %v", pkg.Pkg.Path(), describePanic(r)))
			}
		}()
		ex.callSSA(nil, token.NoPos, initFn, nil, nil)
	}()
	// Initialisers run lazily (on first use of a package's variables), which would
	// lose registrations that other loaded packages make into this package's
	// registry from their own initialisers. In a Go binary every linked package is
	// initialised before main, so: once a registry package is initialised, the
	// loaded packages known to register into it are initialised too.
	for _, dep := range initRegistrants[pkg.Pkg.Path()] {
		if sp := ex.p.prog.ImportedPackage(dep); sp != nil && !ex.inited[sp] {
			ex.initPkg(sp)
		}
	}
}

var initRegistrants = map[string][]string{
	"github.com/ipld/go-ipld-prime/multicodec": {
		"github.com/ipld/go-ipld-prime/codec/dagcbor",
		"github.com/ipld/go-ipld-prime/codec/dagjson",
		"github.com/ipld/go-ipld-prime/codec/raw",
	},
	"github.com/multiformats/go-multiaddr": {
		"github.com/ipni/go-libipni/maurl",
	},
}

func describePanic(r interface{}) string {
	switch r := r.(type) {
	case abortPath:
		return r.kind + ": " + r.msg
	case targetPanic:
		if r.msg != "" {
			return "panic: " + r.msg
		}
		return "panic: " + valString(r.v)
	default:
		return fmt.Sprintf("engine error: %v", r)
	}
}

func (fr *Frame) get(key ssa.Value) Value {
	switch key := key.(type) {
	case nil:
		return nil
	case *ssa.Function, *ssa.Builtin:
		return key
	case *ssa.Const:
		return constValue(key)
	case *ssa.Global:
		return fr.ex.globalAddr(key)
	}
	if r, ok := fr.env[key]; ok {
		return r
	}
	panic(fmt.Sprintf("get: no value for %T: %v in %s", key, key.Name(), fr.fn))
}

func (fr *Frame) runDefer(d *deferred) {
	var ok bool
	defer func() {
		if !ok {
			r := recover()
			if _, isT := r.(targetPanic); !isT {
				panic(r) // engine abort: propagate
			}
			fr.panicking = true
			fr.panic = r
		}
	}()
	fr.ex.call(fr, d.instr.Pos(), d.fn, d.args)
	ok = true
}

func (fr *Frame) runDefers() {
	for d := fr.defers; d != nil; d = d.tail {
		fr.runDefer(d)
	}
	fr.defers = nil
	if fr.panicking {
		panic(fr.panic)
	}
}

func (ex *Exec) throw(fr *Frame, pos token.Pos, msg string) {
	var p token.Position
	if pos == token.NoPos && fr != nil {
		pos = fr.callPos
	}
	if pos != token.NoPos {
		p = ex.p.prog.Fset.Position(pos)
	}
	rt := ex.p.runtimeErrorType()
	panic(targetPanic{v: Iface{t: rt, v: "runtime error: " + msg}, msg: "runtime error: " + msg, pos: p})
}

func (ex *Exec) call(caller *Frame, callpos token.Pos, fn Value, args []Value) Value {
	switch fn := fn.(type) {
	case *ssa.Function:
		if fn == nil {
			ex.throw(caller, callpos, "invalid memory address or nil pointer dereference (call of nil func)")
		}
		return ex.callSSA(caller, callpos, fn, args, nil)
	case *Closure:
		return ex.callSSA(caller, callpos, fn.Fn, args, fn.Env)
	case *ssa.Builtin:
		return ex.callBuiltin(caller, callpos, fn, args)
	case *Native:
		return fn.fn(ex, args)
	case Opaque:
		ex.unsupported("call of opaque function value (%s)", fn.what)
	}
	panic(fmt.Sprintf("cannot call %T", fn))
}

func (ex *Exec) callSSA(caller *Frame, callpos token.Pos, fn *ssa.Function, args []Value, env []Value) Value {
	depth := 0
	var th *Thread
	if caller != nil {
		depth = caller.depth + 1
		th = caller.th
	} else {
		th = ex.cur
	}
	if depth > ex.cfg.MaxDepth {
		panic(abortPath{"budget", fmt.Sprintf("call depth above %d in %s", ex.cfg.MaxDepth, fn)})
	}
	fr := &Frame{ex: ex, th: th, caller: caller, fn: fn, depth: depth, callPos: callpos}
	if in := ex.p.intrinsicFor(fn); in != nil && !(ex.p.stubSet["real-ipld"] && isIpldCodecStub(in.name)) &&
		!(ex.p.stubSet["real-peer-text"] && (strings.HasSuffix(in.name, "/peer.ID).String") || strings.HasSuffix(in.name, "/peer.Decode"))) {
		ex.res.Stubs[in.name]++
		if in.mayDecline {
			if r := in.fn(ex, fr, args); r != (fallThrough{}) {
				return r
			}
			goto interpret
		}
		if ex.cfg.Races {
			if key := syncKeyOf(in.name, args); key != nil {
				// synchronisation primitive: clocks are exchanged on the object both
				// before (release) and after (acquire, once a blocking call returned)
				ex.syncOn(key)
				r := in.fn(ex, fr, args)
				ex.syncOn(key)
				return r
			}
			if in.name == "verif_Quiesce" {
				r := in.fn(ex, fr, args)
				ex.syncBarrier()
				return r
			}
		}
		return in.fn(ex, fr, args)
	}
interpret:
	if fn.Blocks == nil {
		// synthesized package initializers of other packages: lazy
		if fn.Name() == "init" && fn.Pkg != nil && fn.Synthetic != "" {
			return nil
		}
		ex.unsupported("no code for function %s", fn)
	}
	if fn.Name() == "init" && fn.Synthetic != "" && fn.Pkg != nil && ex.inited[fn.Pkg] && caller != nil {
		// dependency initializer reached from another initializer: run lazily instead
		return nil
	}
	if fn.Name() == "init" && fn.Synthetic != "" && fn.Pkg != nil && caller != nil && !ex.inited[fn.Pkg] {
		return nil // lazy: will be run on first global access
	}
	if fn.TypeParams().Len() > 0 && len(fn.TypeArgs()) == 0 {
		ex.unsupported("uninstantiated generic function %s", fn)
	}
	ex.res.Funcs[fn] = true
	if traceCalls && fn.Pkg != nil && strings.HasPrefix(fn.Pkg.Pkg.Path(), "github.com/ipni/go-libipni") {
		tid := -1
		if ex.cur != nil {
			tid = ex.cur.id
		}
		fmt.Fprintf(os.Stderr, "TRACE t%d %s\n", tid, fn)
	}
	fr.initFrame = fn.Synthetic != "" && fn.Name() == "init" || strings.HasPrefix(fn.Name(), "init#")
	fr.env = make(map[ssa.Value]Value, 16)
	fr.block = fn.Blocks[0]
	fr.locals = make([]Value, len(fn.Locals))
	for i, l := range fn.Locals {
		fr.locals[i] = zero(deref(l.Type()))
		fr.env[l] = &fr.locals[i]
	}
	for i, p := range fn.Params {
		fr.env[p] = args[i]
	}
	for i, fv := range fn.FreeVars {
		fr.env[fv] = env[i]
	}
	for fr.block != nil {
		ex.runFrame(fr)
	}
	return fr.result
}

func (ex *Exec) runFrame(fr *Frame) {
	defer func() {
		if fr.block == nil {
			return // normal return
		}
		r := recover()
		if r == nil {
			return
		}
		tp, isT := r.(targetPanic)
		if !isT {
			if _, isA := r.(abortPath); !isA {
				// engine bug or Go runtime error inside the engine: convert
				if os.Getenv("GOSYM_DEBUG") != "" {
					fmt.Fprintf(os.Stderr, "engine error in %s: %v\n%s\n", fr.fn, r, debug.Stack())
				}
				panic(abortPath{"unsupported", fmt.Sprintf("engine error in %s: %v", fr.fn, r)})
			}
			panic(r)
		}
		fr.panicking = true
		fr.panic = tp
		fr.runDefers()
		fr.block = fr.fn.Recover
		if fr.block == nil {
			// recovered, function without named results: return zero values
			fr.result = zeroResults(fr.fn)
		}
	}()
	for {
		nonPhis := executePhis(fr)
		for _, instr := range nonPhis {
			ex.steps++
			if ex.steps > ex.cfg.MaxSteps {
				panic(abortPath{"budget", fmt.Sprintf("more than %d interpreted instructions on one path", ex.cfg.MaxSteps)})
			}
			ex.lastFrame, ex.lastInstr = fr, instr
			if fr.initFrame {
				if ex.visitInitInstr(fr, instr) == kReturn {
					return
				}
				continue
			}
			if ex.visitInstr(fr, instr) == kReturn {
				return
			}
		}
	}
}

func zeroResults(fn *ssa.Function) Value {
	res := fn.Signature.Results()
	switch res.Len() {
	case 0:
		return nil
	case 1:
		return zero(res.At(0).Type())
	}
	return zero(res)
}

func executePhis(fr *Frame) []ssa.Instruction {
	firstNonPhi := -1
	for i, instr := range fr.block.Instrs {
		if _, ok := instr.(*ssa.Phi); !ok {
			firstNonPhi = i
			break
		}
	}
	nonPhis := fr.block.Instrs[firstNonPhi:]
	if firstNonPhi > 0 {
		phis := fr.block.Instrs[:firstNonPhi]
		predIndex := slices.Index(fr.block.Preds, fr.prevBlock)
		fr.phitemps = fr.phitemps[:0]
		for _, phi := range phis {
			phi := phi.(*ssa.Phi)
			if _, done := fr.env[phi]; done && fr.mergedPhi(phi) {
				fr.phitemps = append(fr.phitemps, fr.env[phi])
				continue
			}
			fr.phitemps = append(fr.phitemps, fr.get(phi.Edges[predIndex]))
		}
		for i, phi := range phis {
			fr.env[phi.(*ssa.Phi)] = fr.phitemps[i]
		}
	}
	return nonPhis
}

// mergedPhi reports (and clears) whether phi was pre-computed by diamond merging.
func (fr *Frame) mergedPhi(phi *ssa.Phi) bool {
	if fr.merged == nil {
		return false
	}
	if fr.merged[phi] {
		delete(fr.merged, phi)
		return true
	}
	return false
}

var traceCalls = os.Getenv("GOSYM_TRACE") != ""

type continuation int

const (
	kNext continuation = iota
	kReturn
	kJump
)

func (ex *Exec) doRecover(caller *Frame) Value {
	if caller != nil && !caller.panicking && caller.caller != nil && caller.caller.panicking {
		caller.caller.panicking = false
		p := caller.caller.panic
		caller.caller.panic = nil
		switch p := p.(type) {
		case targetPanic:
			return p.v
		default:
			panic(fmt.Sprintf("unexpected panic type %T in recover()", p))
		}
	}
	return Iface{}
}

// visitInitInstr executes one instruction of a package initializer; a value
// the engine cannot compute becomes Opaque instead of aborting the rest of
// the initializer (its use later is reported as unsupported).
func (ex *Exec) visitInitInstr(fr *Frame, instr ssa.Instruction) (k continuation) {
	v, isVal := instr.(ssa.Value)
	if !isVal {
		return ex.visitInstr(fr, instr)
	}
	if _, isCall := instr.(*ssa.Call); isCall {
		return ex.visitInstr(fr, instr)
	}
	defer func() {
		if r := recover(); r != nil {
			if a, ok := r.(abortPath); ok && a.kind == "unsupported" {
				fr.env[v] = Opaque{"uninterpretable initializer expression"}
				ex.res.InitFails = append(ex.res.InitFails, fmt.Sprintf("%s: %s", ex.posOf(fr, instr.Pos()), a.msg))
				k = kNext
				return
			}
			panic(r)
		}
	}()
	return ex.visitInstr(fr, instr)
}

// isIpldCodecStub: the model-codec entry points that option "real-ipld" turns
// off, so that go-ipld-prime's own LinkSystem.Load, dag-cbor codec and basicnode
// builders are interpreted (feasible on concrete block bytes only).
func isIpldCodecStub(name string) bool {
	return strings.Contains(name, "go-ipld-prime/linking.LinkSystem).Load") ||
		strings.Contains(name, "go-ipld-prime/codec/dagcbor.") ||
		strings.Contains(name, "go-ipld-prime/codec/dagcbor.DecodeOptions)")
}

// syncKeyOf: the object a synchronisation intrinsic operates on (nil if the
// intrinsic is not a synchronisation primitive).
func syncKeyOf(name string, args []Value) interface{} {
	if !(strings.HasPrefix(name, "(*sync.") || strings.HasPrefix(name, "sync/atomic.") || strings.HasPrefix(name, "(*sync/atomic.") ||
		strings.Contains(name, "go-libp2p-pubsub.") || strings.HasPrefix(name, "verif_Pubsub")) {
		return nil
	}
	if len(args) == 0 {
		return nil
	}
	if p, ok := args[0].(*Value); ok && p != nil {
		return p
	}
	return nil
}
