package main

// Model of the in-memory libp2p peerstore (pstoremem.NewPeerstore) for the
// subscriber's HTTP-address book: peer ID -> list of addresses; AddAddrs adds
// the addresses not yet present, SetAddrs with a zero TTL removes them (as
// delNotPresent uses it), Addrs returns the list, Close does nothing. Address
// TTLs never expire (timers are harness-driven and none is needed here).

import "fmt"

type pstoreState struct {
	addrs map[string][]Value
}

func init() {
	extraIntrinsics = append(extraIntrinsics, func(p *Program) {
		p.reg("github.com/libp2p/go-libp2p/p2p/host/peerstore/pstoremem.NewPeerstore", func(ex *Exec, fr *Frame, args []Value) Value {
			st := &pstoreState{addrs: map[string][]Value{}}
			o := &nativeObj{kind: "peerstore(mem)", state: st}
			key := func(v Value) string {
				s, ok := v.(string)
				if !ok {
					ex.unsupported("model peerstore: symbolic peer ID")
				}
				return s
			}
			same := func(a, b Value) bool {
				ab, ok1 := ex.maBytes(fr, a)
				bb, ok2 := ex.maBytes(fr, b)
				return ok1 && ok2 && fmt.Sprint(ab) == fmt.Sprint(bb)
			}
			o.methods = map[string]func(ex *Exec, args []Value) Value{
				"Addrs": func(ex *Exec, args []Value) Value {
					l := st.addrs[key(args[0])]
					if len(l) == 0 {
						return []Value(nil)
					}
					return append([]Value{}, l...)
				},
				"AddAddrs": func(ex *Exec, args []Value) Value {
					k := key(args[0])
					add, _ := args[1].([]Value)
					for _, a := range add {
						dup := false
						for _, b := range st.addrs[k] {
							if same(a, b) {
								dup = true
							}
						}
						if !dup {
							st.addrs[k] = append(st.addrs[k], a)
						}
					}
					return nil
				},
				"SetAddrs": func(ex *Exec, args []Value) Value {
					k := key(args[0])
					set, _ := args[1].([]Value)
					ttl, _ := args[2].(*Term)
					if ttl != nil && ttl.IsConst() && ttl.val == 0 {
						var keep []Value
						for _, b := range st.addrs[k] {
							rm := false
							for _, a := range set {
								if same(a, b) {
									rm = true
								}
							}
							if !rm {
								keep = append(keep, b)
							}
						}
						st.addrs[k] = keep
						return nil
					}
					st.addrs[k] = append([]Value{}, set...)
					return nil
				},
				"Close": func(ex *Exec, args []Value) Value { return Iface{} },
			}
			return Tuple{nativeIface(o), Iface{}}
		})
	})
}

// maBytes: the byte form of a multiaddr.Multiaddr value (concrete only).
func (ex *Exec) maBytes(fr *Frame, v Value) ([]byte, bool) {
	if itf, ok := v.(Iface); ok {
		if itf.t == nil {
			return nil, false
		}
		r := ex.invoke(fr, itf, "Bytes")
		vs, ok := r.([]Value)
		if !ok {
			return nil, false
		}
		return concreteBytes(vs)
	}
	maT := ex.p.namedType("github.com/multiformats/go-multiaddr", "Multiaddr")
	bytesFn := ex.findMethod(maT, "Bytes")
	if bytesFn == nil {
		ex.unsupported("multiaddr.Multiaddr.Bytes not found")
	}
	r := ex.callSSA(fr, fr.callPos, bytesFn, []Value{v}, nil)
	vs, ok := r.([]Value)
	if !ok {
		return nil, false
	}
	return concreteBytes(vs)
}
