package main

// Harness primitives (verif_*) and models of library functions that cannot be
// interpreted from SSA (reflection, unsafe, assembly, run-time services).

import (
	"fmt"
	"go/types"
	"math/bits"
	"net"
	"os"
	"strings"

	"golang.org/x/tools/go/ssa"
)

// nativeObj is an engine-implemented object reachable through an interface.
type nativeObj struct {
	kind    string
	methods map[string]func(ex *Exec, args []Value) Value
	state   interface{}
}

func (o *nativeObj) method(ex *Exec, name string) *Native {
	f, ok := o.methods[name]
	if !ok {
		return nil
	}
	return &Native{name: o.kind + "." + name, fn: f}
}

func (o *nativeObj) implements(i *types.Interface) bool {
	for k := 0; k < i.NumMethods(); k++ {
		if _, ok := o.methods[i.Method(k).Name()]; !ok {
			return false
		}
	}
	return true
}

func argStr(ex *Exec, v Value) string {
	s, ok := v.(string)
	if !ok {
		ex.unsupported("label argument must be a constant string, got %T", v)
	}
	return s
}

func argInt(ex *Exec, v Value, what string) int {
	t, ok := v.(*Term)
	if !ok {
		ex.unsupported("%s: expected integer, got %T", what, v)
	}
	if !t.IsConst() {
		return int(int64(ex.concretize(t, what)))
	}
	return int(signExt(t.val, t.w))
}

func registerIntrinsics(p *Program) {
	// ---- harness primitives ----
	scalar := func(kind string, w int) func(ex *Exec, fr *Frame, args []Value) Value {
		return func(ex *Exec, fr *Frame, args []Value) Value {
			return ex.nondetScalar(kind, argStr(ex, args[0]), w)
		}
	}
	p.reg("verif_Bool", scalar("bool", 0))
	p.reg("verif_U8", scalar("u8", 8))
	p.reg("verif_U16", scalar("u16", 16))
	p.reg("verif_U32", scalar("u32", 32))
	p.reg("verif_U64", scalar("u64", 64))
	p.reg("verif_Int", scalar("int", 64))
	p.reg("verif_Bytes", func(ex *Exec, fr *Frame, args []Value) Value {
		label := argStr(ex, args[0])
		n := argInt(ex, args[1], "verif_Bytes length")
		rec := NondetRec{Kind: "bytes", Label: label, W: 8}
		out := make([]Value, n)
		for i := 0; i < n; i++ {
			ex.nvar++
			t := mkVar(fmt.Sprintf("%s_%d_b%d", sanitize(label), ex.nvar, i), 8)
			rec.Terms = append(rec.Terms, t)
			out[i] = t
		}
		ex.nondet = append(ex.nondet, rec)
		return out
	})
	p.reg("verif_Choose", func(ex *Exec, fr *Frame, args []Value) Value {
		label := argStr(ex, args[0])
		lo := argInt(ex, args[1], "verif_Choose lo")
		hi := argInt(ex, args[2], "verif_Choose hi")
		if hi < lo {
			panic(abortPath{"assume", "empty choose"})
		}
		c := lo
		if hi > lo {
			c = lo + ex.choose("choose:"+label, make([]*Term, hi-lo+1))
		}
		ex.nondet = append(ex.nondet, NondetRec{Kind: "choose", Label: label, W: 64, Terms: []*Term{mkConst(64, uint64(int64(c)))}})
		return mkConst(64, uint64(int64(c)))
	})
	p.reg("verif_Assume", func(ex *Exec, fr *Frame, args []Value) Value {
		ex.assume(args[0].(*Term))
		return nil
	})
	p.reg("verif_Assert", func(ex *Exec, fr *Frame, args []Value) Value {
		label := argStr(ex, args[1])
		c := args[0].(*Term)
		if ex.cfg.Twin {
			c = tFalse
		}
		ex.assertProp(c, label, ex.posOf(fr, fr.callPos))
		return nil
	})
	p.reg("verif_Reach", func(ex *Exec, fr *Frame, args []Value) Value {
		ex.reach(argStr(ex, args[0]))
		return nil
	})
	p.reg("verif_AllocCap", func(ex *Exec, fr *Frame, args []Value) Value {
		ex.allocCap = int64(argInt(ex, args[0], "verif_AllocCap"))
		return nil
	})
	p.reg("verif_Symbolic", func(ex *Exec, fr *Frame, args []Value) Value { return tTrue })
	p.reg("verif_Tier", func(ex *Exec, fr *Frame, args []Value) Value { return mkConst(64, uint64(ex.cfg.Tier)) })
	p.reg("verif_Yield", func(ex *Exec, fr *Frame, args []Value) Value {
		ex.schedule("yield")
		return nil
	})
	p.reg("verif_Quiesce", func(ex *Exec, fr *Frame, args []Value) Value {
		ex.quiesce(fr)
		return nil
	})
	p.reg("verif_Debug", func(ex *Exec, fr *Frame, args []Value) Value {
		if os.Getenv("GOSYM_DEBUG") != "" {
			fmt.Fprintf(os.Stderr, "verif_Debug %s: %s | %s\n", ex.goString(args[0]), ex.errorText(fr, args[1]), valString(args[1]))
		}
		return nil
	})
	p.reg("verif_Observe", func(ex *Exec, fr *Frame, args []Value) Value {
		ex.res.Observes = append(ex.res.Observes, argStr(ex, args[0])+"="+valString(args[1]))
		return nil
	})
	// verif_Panics(f func()) bool: runs f, reports whether it panicked.
	p.reg("verif_Panics", func(ex *Exec, fr *Frame, args []Value) (res Value) {
		res = tFalse
		defer func() {
			if r := recover(); r != nil {
				if _, ok := r.(targetPanic); ok {
					res = tTrue
					return
				}
				panic(r)
			}
		}()
		ex.call(fr, fr.callPos, args[0], nil)
		return tFalse
	})
	// verif_Blocked(f func()) bool: runs f on the current thread; reports
	// true if it could not complete (every continuation is stuck).
	p.reg("verif_Str", func(ex *Exec, fr *Frame, args []Value) Value {
		// verif_Str(label, n): symbolic string of n bytes
		label := argStr(ex, args[0])
		n := argInt(ex, args[1], "verif_Str length")
		rec := NondetRec{Kind: "bytes", Label: label, W: 8}
		out := make([]*Term, n)
		for i := 0; i < n; i++ {
			ex.nvar++
			t := mkVar(fmt.Sprintf("%s_%d_b%d", sanitize(label), ex.nvar, i), 8)
			rec.Terms = append(rec.Terms, t)
			out[i] = t
		}
		ex.nondet = append(ex.nondet, rec)
		return mkStr(out)
	})

	registerLibIntrinsics(p)
	registerSyncIntrinsics(p)
	for _, f := range extraIntrinsics {
		f(p)
	}
}

var extraIntrinsics []func(p *Program)

func (ex *Exec) quiesce(fr *Frame) {
	if len(ex.threads) == 1 {
		return
	}
	main := ex.cur
	others := func() bool {
		for _, t := range ex.threads {
			if t == main || t.done {
				continue
			}
			if t.enabled == nil || t.enabled() {
				return false
			}
		}
		return true
	}
	for !others() {
		main.enabled = others
		main.desc = "quiesce"
		next := ex.pickNext(main, false, "quiesce")
		if next == nil {
			break
		}
		ex.switchTo(main, next)
		ex.deadlock = false
	}
	main.enabled = nil
}

// ---- formatting helpers ----

func (ex *Exec) goString(v Value) string {
	switch v := v.(type) {
	case string:
		return v
	case SymStr:
		if ex.fmtDepth > 0 {
			// inside the formatter: a placeholder that fmtSplice turns back into the symbolic bytes
			ex.fmtSyms = append(ex.fmtSyms, []*Term(v))
			return fmt.Sprintf("\x00%d\x00", len(ex.fmtSyms)-1)
		}
		return fmt.Sprintf("<sym:%d>", len(v))
	case *Term:
		if v.IsConst() {
			if v.w == 0 {
				return fmt.Sprint(v.val != 0)
			}
			return fmt.Sprint(v.val)
		}
		return "<sym>"
	case Iface:
		if v.t == nil {
			return "<nil>"
		}
		// error / Stringer with concrete result?
		return ex.goString(v.v)
	case *Value:
		if v == nil {
			return "<nil>"
		}
		if s, ok := (*v).(Struct); ok && len(s) > 0 {
			if str, ok := s[0].(string); ok {
				return str
			}
		}
		return "&{…}"
	case []Value:
		if b, ok := concreteBytes(v); ok {
			return fmt.Sprint(b)
		}
		return "[…]"
	}
	return fmt.Sprintf("<%T>", v)
}

// errorText returns err.Error() when it can be computed concretely.
func (ex *Exec) errorText(fr *Frame, v Value) string {
	itf, ok := v.(Iface)
	if !ok || itf.t == nil {
		return ex.goString(v)
	}
	if m := ex.findMethod(itf.t, "Error"); m != nil && m.Signature.Params().Len() == 0 {
		var out string
		func() {
			defer func() {
				if r := recover(); r != nil {
					if a, ok := r.(abortPath); ok && a.kind != "unsupported" {
						panic(r)
					}
					out = fmt.Sprintf("<%s>", itf.t)
				}
			}()
			r := ex.callSSA(fr, fr.callPos, m, []Value{itf.v}, nil)
			out = ex.goString(r)
		}()
		return out
	}
	if m := ex.findMethod(itf.t, "String"); m != nil && m.Signature.Params().Len() == 0 {
		var out string
		func() {
			defer func() {
				if r := recover(); r != nil {
					if a, ok := r.(abortPath); ok && a.kind != "unsupported" {
						panic(r)
					}
					out = fmt.Sprintf("<%s>", itf.t)
				}
			}()
			r := ex.callSSA(fr, fr.callPos, m, []Value{itf.v}, nil)
			out = ex.goString(r)
		}()
		return out
	}
	return ex.goString(itf.v)
}

// sprintf is a small model of fmt.Sprintf over engine values. It returns the
// text and the first argument consumed by %w (nil Iface when none).
func (ex *Exec) sprintf(fr *Frame, format string, args []Value) (Value, Value) {
	ex.fmtDepth++
	s, w := ex.sprintf0(fr, format, args)
	return ex.fmtSplice(s), w
}

// fmtSplice ends one formatting call: placeholders of symbolic strings are
// replaced by their bytes (the result is then a symbolic string).
func (ex *Exec) fmtSplice(s string) Value {
	ex.fmtDepth--
	defer func() {
		if ex.fmtDepth == 0 {
			ex.fmtSyms = nil
		}
	}()
	if !strings.Contains(s, "\x00") {
		return s
	}
	var out []*Term
	for i := 0; i < len(s); i++ {
		if s[i] == 0 {
			j := strings.IndexByte(s[i+1:], 0)
			if j >= 0 {
				var k int
				if _, err := fmt.Sscanf(s[i+1:i+1+j], "%d", &k); err == nil && k < len(ex.fmtSyms) {
					out = append(out, ex.fmtSyms[k]...)
					i += j + 1
					continue
				}
			}
		}
		out = append(out, byteConst(s[i]))
	}
	return mkStr(out)
}

func (ex *Exec) sprintf0(fr *Frame, format string, args []Value) (string, Value) {
	var sb strings.Builder
	var wrapped Value
	ai := 0
	for i := 0; i < len(format); i++ {
		c := format[i]
		if c != '%' {
			sb.WriteByte(c)
			continue
		}
		i++
		// flags / width
		for i < len(format) && strings.IndexByte("+-# 0123456789.", format[i]) >= 0 {
			i++
		}
		if i >= len(format) {
			break
		}
		verb := format[i]
		if verb == '%' {
			sb.WriteByte('%')
			continue
		}
		if ai >= len(args) {
			sb.WriteString("%!" + string(verb) + "(MISSING)")
			continue
		}
		a := args[ai]
		ai++
		switch verb {
		case 'w':
			if wrapped == nil {
				wrapped = a
			}
			sb.WriteString(ex.errorText(fr, a))
		case 'T':
			if itf, ok := a.(Iface); ok && itf.t != nil {
				sb.WriteString(itf.t.String())
			} else {
				sb.WriteString("<nil>")
			}
		case 'q':
			if t := ex.errorText(fr, a); strings.Contains(t, "\x00") {
				sb.WriteString("\"" + t + "\"")
			} else {
				sb.WriteString(fmt.Sprintf("%q", t))
			}
		case 'x', 'X':
			if itf, ok := a.(Iface); ok {
				if t, ok := itf.v.(*Term); ok && t.IsConst() {
					sb.WriteString(fmt.Sprintf("%x", t.val))
					break
				}
			}
			sb.WriteString(ex.errorText(fr, a))
		default:
			sb.WriteString(ex.errorText(fr, a))
		}
	}
	return sb.String(), wrapped
}

func (ex *Exec) newErrorString(msg string) Value {
	t := ex.p.namedType("errors", "errorString")
	if t == nil {
		ex.unsupported("errors.errorString type not loaded")
	}
	var cell Value = Struct{msg}
	return Iface{t: types.NewPointer(t), v: &cell}
}

func (ex *Exec) ptrTo(pkg, name string) types.Type {
	t := ex.p.namedType(pkg, name)
	if t == nil {
		ex.unsupported("type %s.%s not loaded", pkg, name)
	}
	key := "*" + pkg + "." + name
	if pt, ok := ex.p.typeMemo.Load(key); ok {
		return pt.(types.Type)
	}
	pt := types.NewPointer(t)
	ex.p.typeMemo.Store(key, pt)
	return pt
}

func registerLibIntrinsics(p *Program) {
	p.reg("fmt.Errorf", func(ex *Exec, fr *Frame, args []Value) Value {
		format := ex.goString(args[0])
		var va []Value
		if args[1] != nil {
			va = args[1].([]Value)
		}
		msg, wrapped := ex.sprintf(fr, format, va)
		if w, ok := wrapped.(Iface); ok && w.t != nil {
			var cell Value = Struct{msg, w}
			return Iface{t: ex.ptrTo("fmt", "wrapError"), v: &cell}
		}
		if ms, ok := msg.(string); ok {
			return ex.newErrorString(ms)
		}
		es := ex.newErrorString("").(Iface)
		*(es.v.(*Value)) = Struct{msg}
		return es
	})
	p.reg("fmt.Sprintf", func(ex *Exec, fr *Frame, args []Value) Value {
		var va []Value
		if args[1] != nil {
			va = args[1].([]Value)
		}
		s, _ := ex.sprintf(fr, ex.goString(args[0]), va)
		return s
	})
	p.reg("fmt.Sprint", func(ex *Exec, fr *Frame, args []Value) Value {
		var sb strings.Builder
		ex.fmtDepth++
		if args[0] != nil {
			for _, a := range args[0].([]Value) {
				sb.WriteString(ex.errorText(fr, a))
			}
		}
		return ex.fmtSplice(sb.String())
	})
	p.reg("fmt.Sprintln", func(ex *Exec, fr *Frame, args []Value) Value { return "\n" })
	noop := func(ex *Exec, fr *Frame, args []Value) Value { return zeroResults(fr.fn) }
	for _, n := range []string{"fmt.Println", "fmt.Printf", "fmt.Print", "fmt.Fprintf", "fmt.Fprintln", "fmt.Fprint",
		"log.Printf", "log.Println", "log.Print", "runtime.SetFinalizer", "runtime.KeepAlive", "runtime.GC", "runtime.Gosched",
		"(*strings.Builder).copyCheck", "os.Getenv", "os.LookupEnv", "internal/race.Enable", "internal/race.Disable",
		"internal/race.Acquire", "internal/race.Release", "internal/race.ReleaseMerge", "internal/race.ReadRange", "internal/race.WriteRange"} {
		p.reg(n, noop)
	}
	// logging libraries: opaque
	logStub := func(ex *Exec, fr *Frame, args []Value) Value {
		res := fr.fn.Signature.Results()
		switch res.Len() {
		case 0:
			return nil
		case 1:
			return opaqueOrZero(res.At(0).Type(), "logger")
		}
		t := make(Tuple, res.Len())
		for i := range t {
			t[i] = opaqueOrZero(res.At(i).Type(), "logger")
		}
		return t
	}
	for _, pk := range []string{"github.com/ipfs/go-log/v2", "go.uber.org/zap", "go.uber.org/zap/zapcore", "go.opencensus.io/stats", "go.opencensus.io/tag"} {
		p.reg(pk+".*", logStub)
	}

	p.reg("errors.Is", func(ex *Exec, fr *Frame, args []Value) Value {
		return mkBool(ex.errorsIs(fr, args[0].(Iface), args[1].(Iface), 0))
	})
	p.reg("errors.As", func(ex *Exec, fr *Frame, args []Value) Value {
		return mkBool(ex.errorsAs(fr, args[0].(Iface), args[1].(Iface), 0))
	})

	// strings.Builder uses unsafe for String()
	p.reg("(*strings.Builder).String", func(ex *Exec, fr *Frame, args []Value) Value {
		b := args[0].(*Value)
		s := (*b).(Struct)
		buf, _ := s[1].([]Value)
		ts := make([]*Term, len(buf))
		for i, v := range buf {
			ts[i] = v.(*Term)
		}
		return mkStr(ts)
	})
	p.reg("internal/bytealg.IndexByteString", func(ex *Exec, fr *Frame, args []Value) Value {
		return ex.indexByte(strBytes(args[0]), args[1].(*Term))
	})
	p.reg("internal/bytealg.IndexByte", func(ex *Exec, fr *Frame, args []Value) Value {
		vs := args[0].([]Value)
		ts := make([]*Term, len(vs))
		for i, v := range vs {
			ts[i] = v.(*Term)
		}
		return ex.indexByte(ts, args[1].(*Term))
	})
	p.reg("internal/bytealg.Equal", func(ex *Exec, fr *Frame, args []Value) Value {
		return ex.strEq(valTerms(args[0].([]Value)), valTerms(args[1].([]Value)))
	})
	p.reg("bytes.Equal", func(ex *Exec, fr *Frame, args []Value) Value {
		return ex.strEq(valTerms(args[0].([]Value)), valTerms(args[1].([]Value)))
	})
	// bytes.EqualFold / strings.EqualFold: exact on operands made of ASCII bytes
	// only (simple case folding of A-Z); anything else is left to the real code
	// when they are concrete (UTF-8 decoding and the Unicode tables explode on
	// symbolic bytes: that side ends the path as unsupported).
	equalFold := func(ex *Exec, a, b []*Term) Value {
		ascii := tTrue
		for _, t := range append(append([]*Term{}, a...), b...) {
			ascii = mkAnd(ascii, mkCmp(OpULt, t, byteConst(0x80)))
		}
		if !ex.branch(ascii, "equalfold-ascii") {
			if _, ok := concTerms(a); ok {
				if _, ok := concTerms(b); ok {
					return fallThrough{} // concrete operands: the real code
				}
			}
			ex.unsupported("EqualFold on symbolic bytes that may be non-ASCII")
		}
		if len(a) != len(b) {
			return tFalse
		}
		lower := func(t *Term) *Term {
			up := mkAnd(mkCmp(OpULe, byteConst('A'), t), mkCmp(OpULe, t, byteConst('Z')))
			return mkIte(up, mkBin(OpAdd, t, byteConst(32)), t)
		}
		eq := tTrue
		for i := range a {
			eq = mkAnd(eq, mkEq(lower(a[i]), lower(b[i])))
		}
		return eq
	}
	p.reg("bytes.EqualFold", func(ex *Exec, fr *Frame, args []Value) Value {
		return equalFold(ex, valTerms(args[0].([]Value)), valTerms(args[1].([]Value)))
	})
	p.reg("strings.EqualFold", func(ex *Exec, fr *Frame, args []Value) Value {
		return equalFold(ex, strBytes(args[0]), strBytes(args[1]))
	})
	p.reg("internal/bytealg.Compare", func(ex *Exec, fr *Frame, args []Value) Value {
		a, b := valTerms(args[0].([]Value)), valTerms(args[1].([]Value))
		lt, eq := ex.strCompare(a, b)
		return mkIte(eq, mkConst(64, 0), mkIte(lt, mkConst(64, ^uint64(0)), mkConst(64, 1)))
	})
	p.reg("internal/bytealg.CompareString", func(ex *Exec, fr *Frame, args []Value) Value {
		lt, eq := ex.strCompare(strBytes(args[0]), strBytes(args[1]))
		return mkIte(eq, mkConst(64, 0), mkIte(lt, mkConst(64, ^uint64(0)), mkConst(64, 1)))
	})
	p.reg("internal/bytealg.CountString", func(ex *Exec, fr *Frame, args []Value) Value {
		n := mkConst(64, 0)
		for _, b := range strBytes(args[0]) {
			n = mkBin(OpAdd, n, boolToBV(mkEq(b, args[1].(*Term)), 64))
		}
		return n
	})
	p.reg("internal/bytealg.Count", func(ex *Exec, fr *Frame, args []Value) Value {
		n := mkConst(64, 0)
		for _, b := range valTerms(args[0].([]Value)) {
			n = mkBin(OpAdd, n, boolToBV(mkEq(b, args[1].(*Term)), 64))
		}
		return n
	})
	p.reg("internal/bytealg.IndexString", func(ex *Exec, fr *Frame, args []Value) Value {
		a, okA := args[0].(string)
		b, okB := args[1].(string)
		if !okA || !okB {
			ex.unsupported("bytealg.IndexString on symbolic strings")
		}
		return mkConst(64, uint64(int64(strings.Index(a, b))))
	})
	p.reg("internal/stringslite.Index", func(ex *Exec, fr *Frame, args []Value) Value {
		a, okA := args[0].(string)
		b, okB := args[1].(string)
		if okA && okB {
			return mkConst(64, uint64(int64(strings.Index(a, b))))
		}
		return ex.symIndex(strBytes(args[0]), strBytes(args[1]))
	})
	p.reg("strings.Index", func(ex *Exec, fr *Frame, args []Value) Value {
		a, okA := args[0].(string)
		b, okB := args[1].(string)
		if okA && okB {
			return mkConst(64, uint64(int64(strings.Index(a, b))))
		}
		return ex.symIndex(strBytes(args[0]), strBytes(args[1]))
	})
	p.reg("internal/bytealg.MakeNoZero", func(ex *Exec, fr *Frame, args []Value) Value {
		n := argInt(ex, args[0], "MakeNoZero")
		out := make([]Value, n)
		for i := range out {
			out[i] = byteConst(0)
		}
		return out
	})
	// sync.Pool: Get hands back the most recently Put item if there is one (the
	// aliasing-prone behaviour of the real pool on one P), otherwise New(); both
	// are scheduling points so that users of a shared pool can interleave there.
	p.reg("(*sync.Pool).Get", func(ex *Exec, fr *Frame, args []Value) Value {
		cell := args[0].(*Value)
		if len(ex.threads) > 1 {
			ex.schedule("Pool.Get")
		}
		if items := ex.pools[cell]; len(items) > 0 {
			it := items[len(items)-1]
			ex.pools[cell] = items[:len(items)-1]
			return it
		}
		pool := (*cell).(Struct)
		// field "New" is the last field
		newFn := pool[len(pool)-1]
		if isNil, _ := isNilValue(newFn); isNil {
			return Iface{}
		}
		return ex.call(fr, fr.callPos, newFn, nil)
	})
	p.reg("(*sync.Pool).Put", func(ex *Exec, fr *Frame, args []Value) Value {
		cell := args[0].(*Value)
		if it, ok := args[1].(Iface); ok && it.t != nil {
			if ex.pools == nil {
				ex.pools = map[*Value][]Value{}
			}
			ex.pools[cell] = append(ex.pools[cell], it)
		}
		if len(ex.threads) > 1 {
			ex.schedule("Pool.Put")
		}
		return nil
	})
	p.reg("internal/stringslite.Clone", func(ex *Exec, fr *Frame, args []Value) Value { return args[0] })
	p.reg("strings.Clone", func(ex *Exec, fr *Frame, args []Value) Value { return args[0] })
	p.reg("internal/abi.NoEscape", func(ex *Exec, fr *Frame, args []Value) Value { return args[0] })
}

func ptrCell(v Value) *Value { return &v }

func opaqueOrZero(t types.Type, what string) Value {
	switch t.Underlying().(type) {
	case *types.Pointer, *types.Interface, *types.Struct:
		return Opaque{what}
	}
	return zero(t)
}

func valTerms(vs []Value) []*Term {
	ts := make([]*Term, len(vs))
	for i, v := range vs {
		ts[i] = v.(*Term)
	}
	return ts
}

// indexByte returns the index of the first byte equal to c, or -1, as a term.
func (ex *Exec) indexByte(bs []*Term, c *Term) Value {
	res := mkConst(64, ^uint64(0))
	for i := len(bs) - 1; i >= 0; i-- {
		res = mkIte(mkEq(bs[i], c), mkConst(64, uint64(i)), res)
	}
	return res
}

// symIndex: index of substring sep in s (both concrete length), as a term.
func (ex *Exec) symIndex(s, sep []*Term) Value {
	res := mkConst(64, ^uint64(0))
	for i := len(s) - len(sep); i >= 0; i-- {
		res = mkIte(ex.strEq(s[i:i+len(sep)], sep), mkConst(64, uint64(i)), res)
	}
	return res
}

// ---- errors.Is / errors.As over engine values ----

func (ex *Exec) comparableType(t types.Type) bool {
	return types.Comparable(t)
}

func (ex *Exec) errorsIs(fr *Frame, err, target Iface, depth int) bool {
	if depth > 50 {
		ex.unsupported("errors.Is: chain too deep")
	}
	if err.t == nil || target.t == nil {
		return err.t == nil && target.t == nil
	}
	comparable := ex.comparableType(target.t)
	for {
		if comparable && types.Identical(err.t, target.t) {
			eq := ex.equals(err.t, err.v, target.v)
			if ex.branch(eq, "errors.Is") {
				return true
			}
		}
		if m := ex.findMethod(err.t, "Is"); m != nil && m.Signature.Params().Len() == 1 && m.Signature.Results().Len() == 1 {
			r := ex.callSSA(fr, fr.callPos, m, []Value{err.v, target}, nil)
			if rt, ok := r.(*Term); ok && ex.branch(rt, "errors.Is-method") {
				return true
			}
		}
		um := ex.lookupUnexportedOrExported(err.t, "Unwrap")
		if um == nil {
			return false
		}
		res := um.Signature.Results()
		if res.Len() != 1 {
			return false
		}
		r := ex.callSSA(fr, fr.callPos, um, []Value{err.v}, nil)
		switch rv := r.(type) {
		case Iface:
			if rv.t == nil {
				return false
			}
			err = rv
		case []Value:
			for _, e := range rv {
				if ei, ok := e.(Iface); ok && ei.t != nil && ex.errorsIs(fr, ei, target, depth+1) {
					return true
				}
			}
			return false
		default:
			return false
		}
	}
}

func (ex *Exec) lookupUnexportedOrExported(t types.Type, name string) *ssa.Function {
	return ex.findMethod(t, name)
}

// findMethod returns the method named name (exported or not) of type t, or nil.
func (ex *Exec) findMethod(t types.Type, name string) *ssa.Function {
	if t == nil || t == nativeType {
		return nil
	}
	ms := ex.p.prog.MethodSets.MethodSet(t)
	for i := 0; i < ms.Len(); i++ {
		sel := ms.At(i)
		if sel.Obj().Name() == name {
			return ex.p.prog.MethodValue(sel)
		}
	}
	return nil
}

func (ex *Exec) errorsAs(fr *Frame, err, target Iface, depth int) bool {
	if depth > 50 {
		ex.unsupported("errors.As: chain too deep")
	}
	if err.t == nil {
		return false
	}
	if target.t == nil {
		ex.throwMsg(fr, fr.callPos, "errors: target cannot be nil")
	}
	pt, ok := target.t.Underlying().(*types.Pointer)
	if !ok {
		ex.throwMsg(fr, fr.callPos, "errors: target must be a non-nil pointer")
	}
	targetType := pt.Elem()
	cell := target.v.(*Value)
	for {
		assignable := false
		if it, ok := targetType.Underlying().(*types.Interface); ok {
			m, _ := types.MissingMethod(err.t, it, true)
			assignable = m == nil
		} else {
			assignable = types.Identical(err.t, targetType)
		}
		if assignable {
			if _, isI := targetType.Underlying().(*types.Interface); isI {
				*cell = err
			} else {
				store(targetType, cell, err.v)
			}
			return true
		}
		if m := ex.findMethod(err.t, "As"); m != nil && m.Signature.Params().Len() == 1 {
			r := ex.callSSA(fr, fr.callPos, m, []Value{err.v, target}, nil)
			if rt, ok := r.(*Term); ok && ex.branch(rt, "errors.As-method") {
				return true
			}
		}
		um := ex.findMethod(err.t, "Unwrap")
		if um == nil || um.Signature.Results().Len() != 1 {
			return false
		}
		r := ex.callSSA(fr, fr.callPos, um, []Value{err.v}, nil)
		switch rv := r.(type) {
		case Iface:
			if rv.t == nil {
				return false
			}
			err = rv
		case []Value:
			for _, e := range rv {
				if ei, ok := e.(Iface); ok && ei.t != nil && ex.errorsAs(fr, ei, target, depth+1) {
					return true
				}
			}
			return false
		default:
			return false
		}
	}
}

func init() {
	extraIntrinsics = append(extraIntrinsics, func(p *Program) {
		bitLen := func(w int) func(ex *Exec, fr *Frame, args []Value) Value {
			return func(ex *Exec, fr *Frame, args []Value) Value {
				x := args[0].(*Term)
				if x.w != w {
					x = mkZExt(x, w)
				}
				res := mkConst(64, 0)
				top := w
				if ub, ok := upperBound(x); ok {
					top = bits.Len64(ub)
				}
				for i := 0; i < top; i++ {
					res = mkIte(mkEq(mkExtract(x, i, i), mkConst(1, 1)), mkConst(64, uint64(i+1)), res)
				}
				return res
			}
		}
		p.reg("math/bits.Len64", bitLen(64))
		p.reg("math/bits.Len32", bitLen(32))
		p.reg("math/bits.Len16", bitLen(16))
		p.reg("math/bits.Len8", bitLen(8))
		p.reg("math/bits.Len", bitLen(64))
		lz := func(w int) func(ex *Exec, fr *Frame, args []Value) Value {
			f := bitLen(w)
			return func(ex *Exec, fr *Frame, args []Value) Value {
				return mkBin(OpSub, mkConst(64, uint64(w)), f(ex, fr, args).(*Term))
			}
		}
		p.reg("math/bits.LeadingZeros64", lz(64))
		p.reg("math/bits.LeadingZeros32", lz(32))
		p.reg("math/bits.LeadingZeros16", lz(16))
		p.reg("math/bits.LeadingZeros8", lz(8))
		p.reg("math/bits.LeadingZeros", lz(64))
		tz := func(w int) func(ex *Exec, fr *Frame, args []Value) Value {
			return func(ex *Exec, fr *Frame, args []Value) Value {
				x := args[0].(*Term)
				res := mkConst(64, uint64(w))
				for i := w - 1; i >= 0; i-- {
					res = mkIte(mkEq(mkExtract(x, i, i), mkConst(1, 1)), mkConst(64, uint64(i)), res)
				}
				return res
			}
		}
		p.reg("math/bits.TrailingZeros64", tz(64))
		p.reg("math/bits.TrailingZeros32", tz(32))
		p.reg("math/bits.TrailingZeros16", tz(16))
		p.reg("math/bits.TrailingZeros8", tz(8))
		p.reg("math/bits.TrailingZeros", tz(64))
	})
}

// ---- net: IP parsing/formatting on concrete values (the library code goes
// through net/netip + unique, which needs the run-time's weak pointers) ----
func init() {
	extraIntrinsics = append(extraIntrinsics, func(p *Program) {
		p.reg("net.ParseIP", func(ex *Exec, fr *Frame, args []Value) Value {
			s, ok := args[0].(string)
			if !ok {
				ex.unsupported("net.ParseIP on a symbolic string")
			}
			ip := net.ParseIP(s)
			if ip == nil {
				return []Value(nil)
			}
			return bytesToValues(ip)
		})
		p.reg("net.ParseCIDR", func(ex *Exec, fr *Frame, args []Value) Value {
			s, ok := args[0].(string)
			if !ok {
				ex.unsupported("net.ParseCIDR on a symbolic string")
			}
			ip, ipn, err := net.ParseCIDR(s)
			if err != nil {
				return Tuple{[]Value(nil), (*Value)(nil), ex.newErrorString(err.Error())}
			}
			var cell Value = Struct{bytesToValues(ipn.IP), bytesToValues(ipn.Mask)}
			return Tuple{bytesToValues(ip), &cell, Iface{}}
		})
		p.reg("(net.IP).String", func(ex *Exec, fr *Frame, args []Value) Value {
			vs, _ := args[0].([]Value)
			b, ok := concreteBytes(vs)
			if !ok {
				// injective text model for symbolic addresses (the text is only compared/printed)
				out := strBytes("ip:")
				hex := func(n *Term) *Term {
					return mkIte(mkCmp(OpULt, n, byteConst(10)), mkBin(OpAdd, n, byteConst('0')), mkBin(OpAdd, n, byteConst('a'-10)))
				}
				for _, v := range vs {
					t := v.(*Term)
					out = append(out, hex(mkBin(OpLShr, t, byteConst(4))), hex(mkBin(OpBAnd, t, byteConst(15))))
				}
				return mkStr(out)
			}
			return net.IP(b).String()
		})
	})
}

// runReal interprets the real body of an intrinsic's target function.
func (ex *Exec) runReal(fr *Frame, name string, args []Value) Value {
	fn := fr.fn
	if fn.Blocks == nil {
		ex.unsupported("no code for function %s", fn)
	}
	nf := &Frame{ex: ex, th: fr.th, caller: fr.caller, fn: fn, depth: fr.depth, callPos: fr.callPos}
	ex.res.Funcs[fn] = true
	nf.env = make(map[ssa.Value]Value, 16)
	nf.block = fn.Blocks[0]
	nf.locals = make([]Value, len(fn.Locals))
	for i, l := range fn.Locals {
		nf.locals[i] = zero(deref(l.Type()))
		nf.env[l] = &nf.locals[i]
	}
	for i, p := range fn.Params {
		nf.env[p] = args[i]
	}
	for nf.block != nil {
		ex.runFrame(nf)
	}
	return nf.result
}

// ---- time: a harness-controlled clock; timers never fire on their own ----
func init() {
	extraIntrinsics = append(extraIntrinsics, func(p *Program) {
		now := func(ex *Exec) Value {
			if ex.clock == nil {
				ex.clock = mkConst(64, 63_900_000_000) // an instant in 2025, seconds since year 1
			}
			return Struct{mkConst(64, 0), ex.clock, (*Value)(nil)}
		}
		p.reg("time.Now", func(ex *Exec, fr *Frame, args []Value) Value { return now(ex) })
		p.reg("verif_SetClock", func(ex *Exec, fr *Frame, args []Value) Value {
			// seconds after the model epoch; may be symbolic
			ex.clock = mkBin(OpAdd, mkConst(64, 63_900_000_000), args[0].(*Term))
			return nil
		})
		newTimer := func(ex *Exec, withChan bool) Value {
			tt := ex.p.namedType("time", "Timer")
			t := zero(tt).(Struct)
			if withChan {
				ex.nextChanID++
				tm := ex.p.namedType("time", "Time")
				ex.setField(t, tt, "C", &Chan{id: ex.nextChanID, cap: 1, elemT: tm})
			}
			var cell Value = t
			return &cell
		}
		p.reg("time.NewTimer", func(ex *Exec, fr *Frame, args []Value) Value {
			t := newTimer(ex, true).(*Value)
			tt := ex.p.namedType("time", "Timer")
			ex.timers = append(ex.timers, timerRec{cell: t, ch: ex.getField((*t).(Struct), tt, "C").(*Chan)})
			return t
		})
		p.reg("time.AfterFunc", func(ex *Exec, fr *Frame, args []Value) Value {
			t := newTimer(ex, false)
			ex.timers = append(ex.timers, timerRec{fn: args[1]})
			return t
		})
		p.reg("time.After", func(ex *Exec, fr *Frame, args []Value) Value {
			ex.nextChanID++
			return &Chan{id: ex.nextChanID, cap: 1, elemT: ex.p.namedType("time", "Time")}
		})
		setStopped := func(ex *Exec, args []Value, stopped bool) {
			if c, ok := args[0].(*Value); ok {
				for i := range ex.timers {
					if ex.timers[i].cell == c {
						ex.timers[i].stopped = stopped
					}
				}
			}
		}
		p.reg("(*time.Timer).Stop", func(ex *Exec, fr *Frame, args []Value) Value { setStopped(ex, args, true); return tTrue })
		p.reg("(*time.Timer).Reset", func(ex *Exec, fr *Frame, args []Value) Value { setStopped(ex, args, false); return tTrue })
		p.reg("time.Sleep", func(ex *Exec, fr *Frame, args []Value) Value {
			ex.schedule("sleep")
			return nil
		})
		p.reg("time.Since", func(ex *Exec, fr *Frame, args []Value) Value {
			// Now().Sub(t) through the real method
			sub := ex.findMethod(ex.p.namedType("time", "Time"), "Sub")
			return ex.callSSA(fr, fr.callPos, sub, []Value{now(ex), args[0]}, nil)
		})
		// verif_FireTimers runs every function registered with time.AfterFunc (harness-driven)
		p.reg("verif_FireTimers", func(ex *Exec, fr *Frame, args []Value) Value {
			ts := ex.timers
			for _, t := range ts {
				if t.fn != nil {
					ex.call(fr, fr.callPos, t.fn, nil)
				}
			}
			return nil
		})
		// verif_TickTimers delivers the current instant on the channel of every
		// time.NewTimer timer that is not stopped (a full channel drops the tick, as
		// the runtime does): the harness decides when durations have elapsed
		p.reg("verif_TickTimers", func(ex *Exec, fr *Frame, args []Value) Value {
			for _, t := range ex.timers {
				if t.ch != nil && !t.stopped {
					ex.trySend(t.ch, now(ex))
				}
			}
			ex.schedule("timer tick")
			return nil
		})
	})
}

type timerRec struct {
	fn      Value  // time.AfterFunc
	cell    *Value // time.NewTimer: the timer
	ch      *Chan
	stopped bool
}

func init() {
	extraIntrinsics = append(extraIntrinsics, func(p *Program) {
		// context.WithValue checks comparability through reflectlite; build the value context directly
		p.reg("context.WithValue", func(ex *Exec, fr *Frame, args []Value) Value {
			if pi, ok := args[0].(Iface); !ok || pi.t == nil {
				ex.throwMsg(fr, fr.callPos, "cannot create context from nil parent")
			}
			vt := ex.p.namedType("context", "valueCtx")
			var cell Value = Struct{args[0], args[1], args[2]}
			return Iface{t: types.NewPointer(vt), v: &cell}
		})
	})
}

func init() {
	extraIntrinsics = append(extraIntrinsics, func(p *Program) {
		p.reg("time.runtimeNano", func(ex *Exec, fr *Frame, args []Value) Value { return mkConst(64, 1) })
		// time.Parse on a 1-byte symbolic token: an instant after 1970 that is
		// strictly monotone in the byte (model of "well-formed RFC3339 strings are
		// totally ordered instants"); concrete strings run the real parser.
		p.reg("time.Parse", func(ex *Exec, fr *Frame, args []Value) Value {
			bs := strBytes(args[1])
			if _, conc := args[1].(string); conc && len(bs) != 1 {
				return ex.runReal(fr, "time.Parse", args)
			}
			if len(bs) != 1 {
				ex.unsupported("time.Parse on a symbolic string of %d bytes", len(bs))
			}
			utc := ex.p.prog.ImportedPackage("time").Var("UTC")
			loc := *ex.globalAddr(utc)
			// seconds from year 1 to 1970-01-01 = 62135596800
			ext := mkBin(OpAdd, mkConst(64, 62135596800+1000), mkZExt(bs[0], 64))
			return Tuple{Struct{mkConst(64, 0), ext, loc}, Iface{}}
		})
	})
}

func init() {
	extraIntrinsics = append(extraIntrinsics, func(p *Program) {
		// number of goroutines (other than the caller) that have not finished
		p.reg("verif_LiveThreads", func(ex *Exec, fr *Frame, args []Value) Value {
			n := 0
			for _, t := range ex.threads {
				if !t.done && t != ex.cur {
					n++
				}
			}
			return mkConst(64, uint64(n))
		})
	})
}

// sort.Slice / sort.SliceStable: the library goes through reflectlite's swapper;
// here a stable insertion sort over the engine's slice cells, calling the real
// `less` closure (each comparison on symbolic data is a branch decision).
func init() {
	extraIntrinsics = append(extraIntrinsics, func(p *Program) {
		sortSlice := func(ex *Exec, fr *Frame, args []Value) Value {
			x, ok := args[0].(Iface)
			if !ok || x.t == nil {
				ex.throwMsg(fr, fr.callPos, "sort.Slice of nil")
			}
			sl, ok := x.v.([]Value)
			if !ok {
				ex.unsupported("sort.Slice of %T", x.v)
			}
			for i := 1; i < len(sl); i++ {
				for j := i; j > 0; j-- {
					r := ex.call(fr, fr.callPos, args[1], []Value{mkConst(64, uint64(j)), mkConst(64, uint64(j-1))})
					if !ex.branch(r.(*Term), "sort.Slice less") {
						break
					}
					sl[j], sl[j-1] = sl[j-1], sl[j]
				}
			}
			return nil
		}
		p.reg("sort.Slice", sortSlice)
		p.reg("sort.SliceStable", sortSlice)
	})
}
