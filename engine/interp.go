package main

import (
	"fmt"
	"go/token"
	"go/types"
	"strings"

	"golang.org/x/tools/go/ssa"
)

func (ex *Exec) visitInstr(fr *Frame, instr ssa.Instruction) continuation {
	switch instr := instr.(type) {
	case *ssa.DebugRef:
		// no-op

	case *ssa.UnOp:
		fr.env[instr] = ex.unop(fr, instr, fr.get(instr.X))

	case *ssa.BinOp:
		fr.env[instr] = ex.binop(fr, instr.Pos(), instr.Op, instr.X.Type(), instr.Y.Type(), fr.get(instr.X), fr.get(instr.Y))

	case *ssa.Call:
		fn, args := ex.prepareCall(fr, instr.Pos(), &instr.Call)
		if fr.initFrame {
			fr.env[instr] = ex.callInInit(fr, instr, fn, args)
		} else {
			fr.env[instr] = ex.call(fr, instr.Pos(), fn, args)
		}

	case *ssa.ChangeInterface:
		fr.env[instr] = fr.get(instr.X)

	case *ssa.ChangeType:
		fr.env[instr] = fr.get(instr.X)

	case *ssa.Convert:
		fr.env[instr] = ex.conv(fr, instr.Type(), instr.X.Type(), fr.get(instr.X))

	case *ssa.MultiConvert:
		fr.env[instr] = ex.conv(fr, instr.Type(), instr.X.Type(), fr.get(instr.X))

	case *ssa.SliceToArrayPointer:
		fr.env[instr] = ex.sliceToArrayPointer(fr, instr, fr.get(instr.X))

	case *ssa.MakeInterface:
		if ni, ok := fr.get(instr.X).(Iface); ok && ni.t == nativeType {
			// a modelled library object returned by a constructor of concrete type
			fr.env[instr] = ni
			break
		}
		fr.env[instr] = Iface{t: instr.X.Type(), v: fr.get(instr.X)}

	case *ssa.Extract:
		tv := fr.get(instr.Tuple)
		if o, ok := tv.(Opaque); ok {
			fr.env[instr] = o
		} else {
			fr.env[instr] = tv.(Tuple)[instr.Index]
		}

	case *ssa.Slice:
		fr.env[instr] = ex.slice(fr, instr, fr.get(instr.X), fr.get(instr.Low), fr.get(instr.High), fr.get(instr.Max))

	case *ssa.Return:
		switch len(instr.Results) {
		case 0:
		case 1:
			fr.result = fr.get(instr.Results[0])
		default:
			res := make(Tuple, 0, len(instr.Results))
			for _, r := range instr.Results {
				res = append(res, fr.get(r))
			}
			fr.result = res
		}
		fr.block = nil
		return kReturn

	case *ssa.RunDefers:
		fr.runDefers()

	case *ssa.Panic:
		v := fr.get(instr.X)
		panic(targetPanic{v: v, pos: ex.p.prog.Fset.Position(instr.Pos())})

	case *ssa.Send:
		ex.chanSend(fr, fr.get(instr.Chan), fr.get(instr.X), instr.Pos())

	case *ssa.Store:
		addr, ok := fr.get(instr.Addr).(*Value)
		if !ok {
			ex.unsupported("store through %T", fr.get(instr.Addr))
		}
		if addr == nil {
			ex.throw(fr, instr.Pos(), "invalid memory address or nil pointer dereference")
		}
		ex.noteWrite(fr, addr)
		store(deref(instr.Addr.Type()), addr, fr.get(instr.Val))

	case *ssa.If:
		c := fr.get(instr.Cond)
		ct, ok := c.(*Term)
		if !ok {
			ex.unsupported("branch on %T", c)
		}
		if !ct.IsConst() && ex.tryMergeDiamond(fr, instr, ct) {
			return kJump
		}
		succ := 1
		if ex.branch(ct, "if") {
			succ = 0
		}
		fr.prevBlock, fr.block = fr.block, fr.block.Succs[succ]
		return kJump

	case *ssa.Jump:
		fr.prevBlock, fr.block = fr.block, fr.block.Succs[0]
		return kJump

	case *ssa.Defer:
		fn, args := ex.prepareCall(fr, instr.Pos(), &instr.Call)
		defers := &fr.defers
		if into := fr.get(instr.DeferStack); into != nil {
			defers = into.(**deferred)
		}
		*defers = &deferred{fn: fn, args: args, instr: instr, tail: *defers}

	case *ssa.Go:
		fn, args := ex.prepareCall(fr, instr.Pos(), &instr.Call)
		ex.spawn(fr, fn, args, instr.Pos())

	case *ssa.MakeChan:
		n := ex.concretize(fr.get(instr.Size).(*Term), "make(chan)")
		ex.nextChanID++
		fr.env[instr] = &Chan{id: ex.nextChanID, cap: int(n), elemT: instr.Type().Underlying().(*types.Chan).Elem()}

	case *ssa.Alloc:
		var addr *Value
		if instr.Heap {
			addr = new(Value)
			fr.env[instr] = addr
		} else {
			addr = fr.env[instr].(*Value)
		}
		*addr = zero(deref(instr.Type()))

	case *ssa.MakeSlice:
		fr.env[instr] = ex.makeSlice(fr, instr, fr.get(instr.Len).(*Term), fr.get(instr.Cap).(*Term))

	case *ssa.MakeMap:
		fr.env[instr] = &MapV{keyT: instr.Type().Underlying().(*types.Map).Key(), index: map[string]int{}}

	case *ssa.Range:
		if m, ok := fr.get(instr.X).(*MapV); ok {
			ex.noteMapRead(fr, m)
		}
		fr.env[instr] = ex.rangeIter(fr, fr.get(instr.X), instr.X.Type())

	case *ssa.Next:
		fr.env[instr] = fr.get(instr.Iter).(iter).next(ex)

	case *ssa.FieldAddr:
		if o, isO := fr.get(instr.X).(Opaque); isO {
			fr.env[instr] = o
			break
		}
		p, ok := fr.get(instr.X).(*Value)
		if !ok {
			ex.unsupported("FieldAddr on %T", fr.get(instr.X))
		}
		if p == nil {
			ex.throw(fr, instr.Pos(), "invalid memory address or nil pointer dereference")
		}
		s, ok := (*p).(Struct)
		if !ok {
			if o, isO := (*p).(Opaque); isO {
				fr.env[instr] = o
				break
			}
			ex.unsupported("FieldAddr: pointee is %T", *p)
		}
		fr.env[instr] = &s[instr.Field]

	case *ssa.Field:
		if o, isO := fr.get(instr.X).(Opaque); isO {
			fr.env[instr] = o
			break
		}
		s, ok := fr.get(instr.X).(Struct)
		if !ok {
			ex.unsupported("Field on %T", fr.get(instr.X))
		}
		fr.env[instr] = s[instr.Field]

	case *ssa.IndexAddr:
		x := fr.get(instr.X)
		idx := fr.get(instr.Index).(*Term)
		_, signed, _ := intWidth(instr.Index.Type().Underlying().(*types.Basic))
		switch x := x.(type) {
		case []Value:
			i := ex.checkIndex(fr, instr.Pos(), idx, signed, len(x))
			fr.env[instr] = &x[i]
		case *Value: // *array
			if x == nil {
				ex.throw(fr, instr.Pos(), "invalid memory address or nil pointer dereference")
			}
			a, ok := (*x).(Array)
			if !ok {
				ex.unsupported("IndexAddr: pointee is %T", *x)
			}
			i := ex.checkIndex(fr, instr.Pos(), idx, signed, len(a))
			fr.env[instr] = &a[i]
		default:
			ex.unsupported("IndexAddr on %T", x)
		}

	case *ssa.Index:
		x := fr.get(instr.X)
		idx := fr.get(instr.Index).(*Term)
		_, signed, _ := intWidth(instr.Index.Type().Underlying().(*types.Basic))
		switch x := x.(type) {
		case Array:
			if !idx.IsConst() && len(x) <= 256 && len(x) > 0 && allTerms(x) {
				fr.env[instr] = ex.symbolicRead(fr, instr.Pos(), []Value(x), idx, signed)
			} else {
				i := ex.checkIndex(fr, instr.Pos(), idx, signed, len(x))
				fr.env[instr] = x[i]
			}
		case string:
			if !idx.IsConst() && len(x) > 0 && len(x) <= 256 {
				fr.env[instr] = ex.symbolicRead(fr, instr.Pos(), bytesToValues([]byte(x)), idx, signed)
			} else {
				i := ex.checkIndex(fr, instr.Pos(), idx, signed, len(x))
				fr.env[instr] = byteConst(x[i])
			}
		case SymStr:
			i := ex.checkIndex(fr, instr.Pos(), idx, signed, len(x))
			fr.env[instr] = x[i]
		default:
			ex.unsupported("Index on %T", x)
		}

	case *ssa.Lookup:
		if m, ok := fr.get(instr.X).(*MapV); ok {
			ex.noteMapRead(fr, m)
		}
		fr.env[instr] = ex.lookup(fr, instr, fr.get(instr.X), fr.get(instr.Index))

	case *ssa.MapUpdate:
		m, ok := fr.get(instr.Map).(*MapV)
		if !ok {
			ex.unsupported("MapUpdate on %T", fr.get(instr.Map))
		}
		if m == nil {
			ex.throw(fr, instr.Pos(), "assignment to entry in nil map")
		}
		ex.noteMapWrite(fr, m)
		ex.mapUpdate(fr, m, fr.get(instr.Key), fr.get(instr.Value))

	case *ssa.TypeAssert:
		itf, ok := fr.get(instr.X).(Iface)
		if !ok {
			ex.unsupported("TypeAssert on %T", fr.get(instr.X))
		}
		fr.env[instr] = ex.typeAssert(fr, instr, itf)

	case *ssa.MakeClosure:
		bindings := make([]Value, 0, len(instr.Bindings))
		for _, b := range instr.Bindings {
			bindings = append(bindings, fr.get(b))
		}
		fr.env[instr] = &Closure{instr.Fn.(*ssa.Function), bindings}

	case *ssa.Phi:
		panic("unreachable: phi")

	case *ssa.Select:
		fr.env[instr] = ex.doSelect(fr, instr)

	default:
		ex.unsupported("unexpected instruction: %T", instr)
	}
	return kNext
}

func allTerms(vs []Value) bool {
	for _, v := range vs {
		if _, ok := v.(*Term); !ok {
			return false
		}
	}
	return true
}

// callInInit runs a call inside a package initializer; a failure to interpret
// it yields an Opaque result instead of killing the path.
func (ex *Exec) callInInit(fr *Frame, instr *ssa.Call, fn Value, args []Value) (res Value) {
	defer func() {
		if r := recover(); r != nil {
			switch a := r.(type) {
			case abortPath:
				if a.kind != "unsupported" {
					panic(r)
				}
			case targetPanic:
				if !fr.initFrame || fr.fn.Synthetic == "" {
					panic(r)
				}
			default:
			}
			ex.res.InitFails = append(ex.res.InitFails, fmt.Sprintf("%s: %s", ex.posOf(fr, instr.Pos()), describePanic(r)))
			res = Opaque{fmt.Sprintf("result of %v in initializer", instr.Call.Value)}
		}
	}()
	return ex.call(fr, instr.Pos(), fn, args)
}

func (ex *Exec) prepareCall(fr *Frame, pos token.Pos, call *ssa.CallCommon) (fn Value, args []Value) {
	v := fr.get(call.Value)
	if call.Method == nil {
		fn = v
	} else {
		recv, ok := v.(Iface)
		if !ok {
			ex.unsupported("invoke on %T", v)
		}
		if recv.t == nil {
			ex.throw(fr, pos, "invalid memory address or nil pointer dereference (method call on nil interface)")
		}
		if nm, ok := recv.v.(*nativeObj); ok {
			m := nm.method(ex, call.Method.Name())
			if m == nil {
				ex.unsupported("native object %s has no method %s", nm.kind, call.Method.Name())
			}
			// a modelled stateful object (hasher, cipher, ...) is memory the caller
			// mutates: unsynchronised use from two goroutines is a data race
			ex.noteObjAccess(fr, nm, strings.HasPrefix(nm.kind, "hash."))
			fn = m
			for _, arg := range call.Args {
				args = append(args, fr.get(arg))
			}
			return
		}
		f := ex.p.prog.LookupMethod(recv.t, call.Method.Pkg(), call.Method.Name())
		if f == nil {
			ex.unsupported("method set for dynamic type %v does not contain %s", recv.t, call.Method)
		}
		fn = f
		args = append(args, recv.v)
	}
	for _, arg := range call.Args {
		args = append(args, fr.get(arg))
	}
	return
}

// checkIndex returns a concrete in-range index, forking over feasible values
// and raising the Go run-time panic on the out-of-range side.
func (ex *Exec) checkIndex(fr *Frame, pos token.Pos, idx *Term, signed bool, n int) int {
	idx64 := idx
	if idx.w < 64 {
		if signed {
			idx64 = mkSExt(idx, 64)
		} else {
			idx64 = mkZExt(idx, 64)
		}
	}
	inRange := mkCmp(OpULt, idx64, mkConst(64, uint64(n)))
	if !ex.branch(inRange, "index") {
		ex.throw(fr, pos, fmt.Sprintf("index out of range [%s] with length %d", termString(idx), n))
	}
	return int(ex.concretize(idx64, "index"))
}

// symbolicRead reads vs[idx] as an ite-chain after the bounds check.
func (ex *Exec) symbolicRead(fr *Frame, pos token.Pos, vs []Value, idx *Term, signed bool) Value {
	idx64 := idx
	if idx.w < 64 {
		if signed {
			idx64 = mkSExt(idx, 64)
		} else {
			idx64 = mkZExt(idx, 64)
		}
	}
	n := len(vs)
	inRange := mkCmp(OpULt, idx64, mkConst(64, uint64(n)))
	if !ex.branch(inRange, "index") {
		ex.throw(fr, pos, fmt.Sprintf("index out of range [%s] with length %d", termString(idx), n))
	}
	res := vs[n-1].(*Term)
	for i := n - 2; i >= 0; i-- {
		res = mkIte(mkEq(idx64, mkConst(64, uint64(i))), vs[i].(*Term), res)
	}
	return res
}

func (ex *Exec) makeSlice(fr *Frame, instr *ssa.MakeSlice, ln, cp *Term) Value {
	tElt := instr.Type().Underlying().(*types.Slice).Elem()
	ln64 := ex.toInt64(ln, instr.Len.Type())
	cp64 := ex.toInt64(cp, instr.Cap.Type())
	if !ln64.IsConst() || !cp64.IsConst() {
		// allocation obligation: size must stay within the declared cap
		capN := ex.allocCap
		if capN < 0 {
			capN = ex.cfg.DefaultAllocCap
		} else if sz := gcSizes.Sizeof(tElt); sz > 1 {
			// a declared cap is in bytes: n elements of sz bytes each
			capN /= sz
		}
		ok := mkAnd(mkCmp(OpSLe, mkConst(64, 0), ln64), mkCmp(OpSLe, ln64, mkConst(64, uint64(capN))))
		ok = mkAnd(ok, mkAnd(mkCmp(OpSLe, ln64, cp64), mkCmp(OpSLe, cp64, mkConst(64, uint64(capN)))))
		if !ex.branch(ok, "make-size") {
			// decide which: negative / len>cap => Go panics; huge => allocation violation
			neg := mkOr(mkCmp(OpSLt, ln64, mkConst(64, 0)), mkCmp(OpSLt, cp64, ln64))
			if ex.branch(neg, "make-neg") {
				ex.throw(fr, instr.Pos(), "makeslice: len out of range")
			}
			m := ex.model
			if m == nil {
				_, m = ex.solver.Check(nil, true)
			}
			ex.recordViolation("alloc", "allocation-bound", ex.posOf(fr, instr.Pos()),
				fmt.Sprintf("make([]%s, n) with n above the declared allocation cap %d (n = %s)", tElt, capN, termString(ln64)), m)
			panic(abortPath{"stop", "allocation above cap"})
		}
	}
	var n, c int
	if !ln64.IsConst() && !ex.branch(mkCmp(OpSLe, ln64, mkConst(64, uint64(ex.cfg.MakeEnumLimit))), "make-small") {
		// lengths above the enumeration limit: one representative (recorded cut)
		// prefer the smallest such length when it is feasible
		first := mkEq(ln64, mkConst(64, uint64(ex.cfg.MakeEnumLimit+1)))
		if !ex.replaying() {
			if r, _ := ex.solver.Check(first, false); r == Sat {
				ex.addPC(first, nil)
			}
		} else if ex.prefix[ex.pos] == ex.cfg.MakeEnumLimit+1 {
			ex.addPC(first, nil)
		}
		n = int(ex.pickOne(ln64, "make-len above enumeration limit: one representative length"))
	} else {
		n = int(ex.concretize(ln64, "make-len"))
	}
	c = int(ex.concretize(cp64, "make-cap"))
	if n < 0 || c < n {
		ex.throw(fr, instr.Pos(), "makeslice: len out of range")
	}
	if int64(c) > ex.cfg.HardAllocLimit {
		if ex.allocCap >= 0 && int64(c)*elemBytes(tElt) > ex.allocCap {
			ex.recordViolation("alloc", "allocation-bound", ex.posOf(fr, instr.Pos()),
				fmt.Sprintf("make of %d elements exceeds declared cap %d", c, ex.allocCap), ex.model)
			panic(abortPath{"stop", "allocation above cap"})
		}
		ex.unsupported("make of %d elements exceeds the engine's hard limit", c)
	}
	if ex.allocCap >= 0 && int64(c)*elemBytes(tElt) > ex.allocCap {
		m := ex.model
		if m == nil {
			_, m = ex.solver.Check(nil, true)
		}
		ex.recordViolation("alloc", "allocation-bound", ex.posOf(fr, instr.Pos()),
			fmt.Sprintf("make of %d elements exceeds declared cap %d", c, ex.allocCap), m)
		panic(abortPath{"stop", "allocation above cap"})
	}
	s := make([]Value, c)
	if isScalarType(tElt) {
		z := zero(tElt)
		for i := range s {
			s[i] = z
		}
	} else {
		for i := range s {
			s[i] = zero(tElt)
		}
	}
	return s[:n]
}

func (ex *Exec) toInt64(t *Term, typ types.Type) *Term {
	if t.w == 64 {
		return t
	}
	_, signed, _ := intWidth(typ.Underlying().(*types.Basic))
	if signed {
		return mkSExt(t, 64)
	}
	return mkZExt(t, 64)
}

func (ex *Exec) slice(fr *Frame, instr *ssa.Slice, x, lo, hi, max Value) Value {
	var Len, Cap int
	switch x := x.(type) {
	case string:
		Len = len(x)
	case SymStr:
		Len = len(x)
	case []Value:
		Len, Cap = len(x), cap(x)
	case *Value:
		if x == nil {
			ex.throw(fr, instr.Pos(), "invalid memory address or nil pointer dereference")
		}
		a, ok := (*x).(Array)
		if !ok {
			ex.unsupported("slice of pointer to %T", *x)
		}
		Len, Cap = len(a), cap(a)
		Cap = Len
	default:
		ex.unsupported("slice of %T", x)
	}
	_, isStr := x.(string)
	_, isSym := x.(SymStr)
	if isStr || isSym {
		Cap = Len
	}
	// symbolic bounds: establish 0 <= lo <= hi <= max <= cap, then concretize
	get := func(v Value, t ssa.Value, def int) *Term {
		if v == nil {
			return mkConst(64, uint64(def))
		}
		return ex.toInt64(v.(*Term), t.Type())
	}
	hiDef := Len
	l := get(lo, instr.Low, 0)
	h := get(hi, instr.High, hiDef)
	m := get(max, instr.Max, Cap)
	limit := Cap
	if isStr || isSym {
		limit = Len
	}
	ok := mkAnd(mkCmp(OpSLe, mkConst(64, 0), l), mkAnd(mkCmp(OpSLe, l, h), mkAnd(mkCmp(OpSLe, h, m), mkCmp(OpSLe, m, mkConst(64, uint64(limit))))))
	if !ex.branch(ok, "slice-bounds") {
		ex.throw(fr, instr.Pos(), fmt.Sprintf("slice bounds out of range [%s:%s:%s] with capacity %d", termString(l), termString(h), termString(m), limit))
	}
	li := int(ex.concretizeOrPick(l, "slice-lo"))
	hi2 := int(ex.concretizeOrPick(h, "slice-hi"))
	mi := int(ex.concretizeOrPick(m, "slice-max"))
	switch x := x.(type) {
	case string:
		return x[li:hi2]
	case SymStr:
		return mkStr(x[li:hi2])
	case []Value:
		return x[li:hi2:mi]
	case *Value:
		a := (*x).(Array)
		return []Value(a)[li:hi2:mi]
	}
	panic("unreachable")
}

func (ex *Exec) sliceToArrayPointer(fr *Frame, instr *ssa.SliceToArrayPointer, x Value) Value {
	s, ok := x.([]Value)
	if !ok {
		ex.unsupported("SliceToArrayPointer on %T", x)
	}
	n := int(deref(instr.Type()).Underlying().(*types.Array).Len())
	if len(s) < n {
		ex.throw(fr, instr.Pos(), fmt.Sprintf("cannot convert slice with length %d to array or pointer to array with length %d", len(s), n))
	}
	if s == nil {
		return (*Value)(nil)
	}
	var v Value = Array(s[:n:n])
	return &v
}

// ---- type assertion ----

func (ex *Exec) typeAssert(fr *Frame, instr *ssa.TypeAssert, itf Iface) Value {
	var v Value
	err := ""
	if itf.t == nil {
		err = fmt.Sprintf("interface conversion: interface is nil, not %s", instr.AssertedType)
	} else if idst, ok := instr.AssertedType.Underlying().(*types.Interface); ok {
		v = itf
		if no, isN := itf.v.(*nativeObj); isN {
			if !no.implements(idst) {
				err = fmt.Sprintf("interface conversion: %s does not implement %s", no.kind, instr.AssertedType)
			}
		} else if meth, _ := types.MissingMethod(itf.t, idst, true); meth != nil {
			err = fmt.Sprintf("interface conversion: %v is not %v: missing method %s", itf.t, idst, meth.Name())
		}
	} else if types.Identical(itf.t, instr.AssertedType) {
		v = itf.v
	} else {
		err = fmt.Sprintf("interface conversion: interface is %s, not %s", itf.t, instr.AssertedType)
	}
	if err != "" {
		if !instr.CommaOk {
			panic(targetPanic{v: Iface{t: ex.p.runtimeErrorType(), v: err}, msg: err, pos: ex.p.prog.Fset.Position(instr.Pos())})
		}
		return Tuple{zero(instr.AssertedType), tFalse}
	}
	if instr.CommaOk {
		return Tuple{v, tTrue}
	}
	return v
}

// concretizeOrPick enumerates small values of t and represents all larger ones
// by a single witness (recorded cut), like allocation lengths.
func (ex *Exec) concretizeOrPick(t *Term, where string) uint64 {
	if t.IsConst() {
		return t.val
	}
	if ex.branch(mkCmp(OpSLe, t, mkConst(64, uint64(ex.cfg.MakeEnumLimit))), where+"-small") {
		return ex.concretize(t, where)
	}
	first := mkEq(t, mkConst(64, uint64(ex.cfg.MakeEnumLimit+1)))
	if !ex.replaying() {
		if r, _ := ex.solver.Check(first, false); r == Sat {
			ex.addPC(first, nil)
		}
	} else if ex.prefix[ex.pos] == ex.cfg.MakeEnumLimit+1 {
		ex.addPC(first, nil)
	}
	return ex.pickOne(t, where+" above enumeration limit: one representative value")
}

var gcSizes = types.SizesFor("gc", "amd64")

func elemBytes(t types.Type) int64 {
	if sz := gcSizes.Sizeof(t); sz > 1 {
		return sz
	}
	return 1
}
