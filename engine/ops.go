package main

import (
	"fmt"
	"go/constant"
	"go/token"
	"go/types"
	"math"
	"unicode/utf8"

	"golang.org/x/tools/go/ssa"
)

func constValue(c *ssa.Const) Value {
	if c.Value == nil {
		return zero(c.Type())
	}
	if t, ok := c.Type().Underlying().(*types.Basic); ok {
		if w, signed, ok := intWidth(t); ok {
			if w == 0 {
				return mkBool(constant.BoolVal(c.Value))
			}
			if signed {
				return mkConst(w, uint64(c.Int64()))
			}
			return mkConst(w, c.Uint64())
		}
		switch t.Kind() {
		case types.Float32:
			return float32(c.Float64())
		case types.Float64, types.UntypedFloat:
			return c.Float64()
		case types.Complex64:
			return complex64(c.Complex128())
		case types.Complex128, types.UntypedComplex:
			return c.Complex128()
		case types.String, types.UntypedString:
			if c.Value.Kind() == constant.String {
				return constant.StringVal(c.Value)
			}
			return string(rune(c.Int64()))
		}
	}
	panic(fmt.Sprintf("constValue: %s", c))
}

func basicOf(t types.Type) *types.Basic {
	b, _ := t.Underlying().(*types.Basic)
	return b
}

// ---- unary ----

func (ex *Exec) unop(fr *Frame, instr *ssa.UnOp, x Value) Value {
	switch instr.Op {
	case token.ARROW:
		return ex.chanRecv(fr, x, instr.CommaOk, instr.Pos())
	case token.MUL:
		if o, isO := x.(Opaque); isO {
			return o
		}
		p, ok := x.(*Value)
		if !ok {
			ex.unsupported("load through %T", x)
		}
		if p == nil {
			ex.throw(fr, instr.Pos(), "invalid memory address or nil pointer dereference")
		}
		ex.noteRead(fr, p)
		return load(deref(instr.X.Type()), p)
	case token.SUB:
		switch x := x.(type) {
		case *Term:
			return mkNeg(x)
		case float64:
			return -x
		case float32:
			return -x
		}
	case token.NOT:
		if t, ok := x.(*Term); ok {
			return mkNot(t)
		}
	case token.XOR:
		if t, ok := x.(*Term); ok {
			return mkBNot(t)
		}
	}
	ex.unsupported("unop %s on %T", instr.Op, x)
	return nil
}

// ---- binary ----

func (ex *Exec) binop(fr *Frame, pos token.Pos, op token.Token, tx, ty types.Type, x, y Value) Value {
	switch op {
	case token.EQL:
		return ex.equalsOrNil(tx, ty, x, y)
	case token.NEQ:
		return mkNot(ex.equalsOrNil(tx, ty, x, y))
	}
	switch xv := x.(type) {
	case *Term:
		yv, ok := y.(*Term)
		if !ok {
			ex.unsupported("binop %s: %T vs %T", op, x, y)
		}
		b := basicOf(tx)
		if b == nil {
			ex.unsupported("binop %s on non-basic %v", op, tx)
		}
		w, signed, _ := intWidth(b)
		if w == 0 { // bool
			switch op {
			case token.LAND, token.AND:
				return mkAnd(xv, yv)
			case token.LOR, token.OR:
				return mkOr(xv, yv)
			}
			ex.unsupported("bool binop %s", op)
		}
		switch op {
		case token.ADD:
			return mkBin(OpAdd, xv, yv)
		case token.SUB:
			return mkBin(OpSub, xv, yv)
		case token.MUL:
			return mkBin(OpMul, xv, yv)
		case token.QUO, token.REM:
			if !ex.branch(mkNot(mkEq(yv, mkConst(w, 0))), "div-zero") {
				ex.throw(fr, pos, "integer divide by zero")
			}
			if signed {
				if op == token.QUO {
					return mkBin(OpSDiv, xv, yv)
				}
				return mkBin(OpSRem, xv, yv)
			}
			if op == token.QUO {
				return mkBin(OpUDiv, xv, yv)
			}
			return mkBin(OpURem, xv, yv)
		case token.AND:
			return mkBin(OpBAnd, xv, yv)
		case token.OR:
			return mkBin(OpBOr, xv, yv)
		case token.XOR:
			return mkBin(OpBXor, xv, yv)
		case token.AND_NOT:
			return mkBin(OpBAnd, xv, mkBNot(yv))
		case token.SHL, token.SHR:
			yb := basicOf(ty)
			_, ysigned, _ := intWidth(yb)
			if ysigned {
				if !ex.branch(mkCmp(OpSLe, mkConst(yv.w, 0), yv), "shift-neg") {
					ex.throw(fr, pos, "negative shift amount")
				}
			}
			// bring shift count to width w, saturating
			var cnt *Term
			var big *Term = tFalse
			if yv.w > w {
				big = mkCmp(OpULe, mkConst(yv.w, uint64(w)), yv)
				cnt = mkExtract(yv, w-1, 0)
			} else {
				cnt = mkZExt(yv, w)
				big = mkCmp(OpULe, mkConst(w, uint64(w)), cnt)
			}
			if op == token.SHL {
				return mkIte(big, mkConst(w, 0), mkBin(OpShl, xv, cnt))
			}
			if signed {
				return mkIte(big, mkBin(OpAShr, xv, mkConst(w, uint64(w-1))), mkBin(OpAShr, xv, cnt))
			}
			return mkIte(big, mkConst(w, 0), mkBin(OpLShr, xv, cnt))
		case token.LSS:
			if signed {
				return mkCmp(OpSLt, xv, yv)
			}
			return mkCmp(OpULt, xv, yv)
		case token.LEQ:
			if signed {
				return mkCmp(OpSLe, xv, yv)
			}
			return mkCmp(OpULe, xv, yv)
		case token.GTR:
			if signed {
				return mkCmp(OpSLt, yv, xv)
			}
			return mkCmp(OpULt, yv, xv)
		case token.GEQ:
			if signed {
				return mkCmp(OpSLe, yv, xv)
			}
			return mkCmp(OpULe, yv, xv)
		}
	case float64:
		yv, ok := y.(float64)
		if !ok {
			break
		}
		switch op {
		case token.ADD:
			return xv + yv
		case token.SUB:
			return xv - yv
		case token.MUL:
			return xv * yv
		case token.QUO:
			return xv / yv
		case token.LSS:
			return mkBool(xv < yv)
		case token.LEQ:
			return mkBool(xv <= yv)
		case token.GTR:
			return mkBool(xv > yv)
		case token.GEQ:
			return mkBool(xv >= yv)
		}
	case float32:
		yv, ok := y.(float32)
		if !ok {
			break
		}
		switch op {
		case token.ADD:
			return xv + yv
		case token.SUB:
			return xv - yv
		case token.MUL:
			return xv * yv
		case token.QUO:
			return xv / yv
		case token.LSS:
			return mkBool(xv < yv)
		case token.LEQ:
			return mkBool(xv <= yv)
		case token.GTR:
			return mkBool(xv > yv)
		case token.GEQ:
			return mkBool(xv >= yv)
		}
	case string, SymStr:
		switch op {
		case token.ADD:
			if xs, ok := x.(string); ok {
				if ys, ok := y.(string); ok {
					return xs + ys
				}
			}
			return mkStr(append(append([]*Term{}, strBytes(x)...), strBytes(y)...))
		case token.LSS, token.LEQ, token.GTR, token.GEQ:
			lt, eq := ex.strCompare(strBytes(x), strBytes(y))
			switch op {
			case token.LSS:
				return lt
			case token.LEQ:
				return mkOr(lt, eq)
			case token.GTR:
				return mkNot(mkOr(lt, eq))
			case token.GEQ:
				return mkNot(lt)
			}
		}
	}
	ex.unsupported("binop %s on %T, %T", op, x, y)
	return nil
}

// strCompare returns (x<y, x==y) lexicographically.
func (ex *Exec) strCompare(a, b []*Term) (lt, eq *Term) {
	n := len(a)
	if len(b) < n {
		n = len(b)
	}
	// from the end: lt_i = a[i]<b[i] || (a[i]==b[i] && lt_{i+1})
	lt = mkBool(len(a) < len(b))
	eq = mkBool(len(a) == len(b))
	for i := n - 1; i >= 0; i-- {
		e := mkEq(a[i], b[i])
		lt = mkOr(mkCmp(OpULt, a[i], b[i]), mkAnd(e, lt))
		eq = mkAnd(e, eq)
	}
	return
}

func isNilValue(v Value) (isNil bool, known bool) {
	switch v := v.(type) {
	case *Value:
		return v == nil, true
	case []Value:
		return v == nil, true
	case *MapV:
		return v == nil, true
	case *Chan:
		return v == nil, true
	case *ssa.Function:
		return v == nil, true
	case *Closure:
		return false, true
	case *Native:
		return false, true
	case *ssa.Builtin:
		return false, true
	case Iface:
		return v.t == nil, true
	}
	return false, false
}

func (ex *Exec) equalsOrNil(tx, ty types.Type, x, y Value) *Term {
	// comparisons against nil for slices, maps, funcs
	switch tx.Underlying().(type) {
	case *types.Slice, *types.Map, *types.Signature:
		xn, ok1 := isNilValue(x)
		yn, ok2 := isNilValue(y)
		if !ok1 || !ok2 {
			ex.unsupported("nil comparison of %T and %T", x, y)
		}
		if xn || yn {
			return mkBool(xn == yn)
		}
		ex.unsupported("comparison of non-nil %v values", tx)
	}
	return ex.equals(tx, x, y)
}

// equals returns a Bool term for x == y at static type t.
func (ex *Exec) equals(t types.Type, x, y Value) *Term {
	if _, ok := x.(Opaque); ok {
		ex.unsupported("comparison of opaque value (%s)", x.(Opaque).what)
	}
	if _, ok := y.(Opaque); ok {
		ex.unsupported("comparison of opaque value (%s)", y.(Opaque).what)
	}
	switch x := x.(type) {
	case *Term:
		yt, ok := y.(*Term)
		if !ok {
			return tFalse
		}
		if x.w != yt.w {
			return tFalse
		}
		return mkEq(x, yt)
	case float64:
		return mkBool(x == y.(float64))
	case float32:
		return mkBool(x == y.(float32))
	case complex128:
		return mkBool(x == y.(complex128))
	case string:
		if ys, ok := y.(string); ok {
			return mkBool(x == ys)
		}
		return ex.strEq(strBytes(x), strBytes(y))
	case SymStr:
		return ex.strEq(x, strBytes(y))
	case *Value:
		return mkBool(x == y.(*Value))
	case *Chan:
		return mkBool(x == y.(*Chan))
	case *MapV:
		return mkBool(x == y.(*MapV))
	case Struct:
		ys := y.(Struct)
		st := t.Underlying().(*types.Struct)
		r := tTrue
		for i := range x {
			if st.Field(i).Name() == "_" {
				continue
			}
			r = mkAnd(r, ex.equals(st.Field(i).Type(), x[i], ys[i]))
			if r.IsConst() && r.val == 0 {
				return r
			}
		}
		return r
	case Array:
		ya := y.(Array)
		et := t.Underlying().(*types.Array).Elem()
		r := tTrue
		for i := range x {
			r = mkAnd(r, ex.equals(et, x[i], ya[i]))
			if r.IsConst() && r.val == 0 {
				return r
			}
		}
		return r
	case Iface:
		yi := y.(Iface)
		if x.t == nil || yi.t == nil {
			return mkBool(x.t == nil && yi.t == nil)
		}
		if !types.Identical(x.t, yi.t) {
			return tFalse
		}
		switch x.t.Underlying().(type) {
		case *types.Slice, *types.Map, *types.Signature:
			panic(targetPanic{v: Iface{t: ex.p.runtimeErrorType(), v: "runtime error: comparing uncomparable type " + x.t.String()}, msg: "runtime error: comparing uncomparable type " + x.t.String()})
		}
		return ex.equals(x.t, x.v, yi.v)
	case *ssa.Function, *Closure, *Native, *ssa.Builtin:
		xn, _ := isNilValue(x)
		yn, _ := isNilValue(y)
		if xn || yn {
			return mkBool(xn == yn)
		}
	case *nativeObj:
		yo, ok := y.(*nativeObj)
		return mkBool(ok && yo == x)
	case []Value:
		xn, _ := isNilValue(x)
		yn, _ := isNilValue(y)
		if xn || yn {
			return mkBool(xn == yn)
		}
	}
	ex.unsupported("equals on %T / %T (type %v)", x, y, t)
	return nil
}

func (ex *Exec) strEq(a, b []*Term) *Term {
	if len(a) != len(b) {
		return tFalse
	}
	r := tTrue
	for i := range a {
		r = mkAnd(r, mkEq(a[i], b[i]))
		if r.IsConst() && r.val == 0 {
			return r
		}
	}
	return r
}

// ---- conversions ----

func (ex *Exec) conv(fr *Frame, tDst, tSrc types.Type, x Value) Value {
	utSrc := tSrc.Underlying()
	utDst := tDst.Underlying()
	if o, ok := x.(Opaque); ok {
		return o
	}
	switch ut := utSrc.(type) {
	case *types.Signature, *types.Pointer, *types.Map, *types.Chan, *types.Struct, *types.Array, *types.Interface:
		if b, ok := utDst.(*types.Basic); ok && b.Kind() == types.UnsafePointer {
			return Opaque{"unsafe.Pointer"}
		}
		return x
	case *types.Slice:
		// []byte/[]rune -> string
		if b, ok := utDst.(*types.Basic); ok && b.Info()&types.IsString != 0 {
			vs := x.([]Value)
			eb := basicOf(ut.Elem())
			if eb.Kind() == types.Byte {
				ts := make([]*Term, len(vs))
				for i, v := range vs {
					ts[i] = v.(*Term)
				}
				return mkStr(ts)
			}
			// []rune
			var rs []rune
			for _, v := range vs {
				t := v.(*Term)
				if !t.IsConst() {
					ex.unsupported("symbolic []rune to string")
				}
				rs = append(rs, rune(signExt(t.val, 32)))
			}
			return string(rs)
		}
		return x // slice -> slice of identical underlying
	case *types.Basic:
		if ut.Kind() == types.UnsafePointer {
			return Opaque{"from unsafe.Pointer"}
		}
		// string -> []byte / []rune
		if ut.Info()&types.IsString != 0 {
			switch d := utDst.(type) {
			case *types.Slice:
				eb := basicOf(d.Elem())
				if eb.Kind() == types.Byte {
					bs := strBytes(x)
					out := make([]Value, len(bs))
					for i, b := range bs {
						out[i] = b
					}
					return out
				}
				s, ok := x.(string)
				if !ok {
					ex.unsupported("symbolic string to []rune")
				}
				var out []Value
				for _, r := range s {
					out = append(out, mkConst(32, uint64(r)))
				}
				if out == nil {
					out = []Value{}
				}
				return out
			case *types.Basic:
				if d.Info()&types.IsString != 0 {
					return x
				}
			}
			break
		}
		dst, ok := utDst.(*types.Basic)
		if !ok {
			break
		}
		if dst.Kind() == types.UnsafePointer {
			return Opaque{"unsafe.Pointer"}
		}
		sw, ssigned, sIsInt := intWidth(ut)
		dw, dsigned, dIsInt := intWidth(dst)
		_ = dsigned
		if sIsInt && sw > 0 {
			xt := x.(*Term)
			if dIsInt && dw > 0 {
				if dw <= sw {
					return mkExtract(xt, dw-1, 0)
				}
				if ssigned {
					return mkSExt(xt, dw)
				}
				return mkZExt(xt, dw)
			}
			if dst.Info()&types.IsString != 0 {
				if !xt.IsConst() {
					ex.unsupported("symbolic int to string")
				}
				return string(rune(signExt(xt.val, sw)))
			}
			if isFloat(dst) {
				if !xt.IsConst() {
					ex.unsupported("symbolic int to float")
				}
				var f float64
				if ssigned {
					f = float64(signExt(xt.val, sw))
				} else {
					f = float64(xt.val)
				}
				if dst.Kind() == types.Float32 {
					return float32(f)
				}
				return f
			}
		}
		if isFloat(ut) {
			var f float64
			switch xv := x.(type) {
			case float64:
				f = xv
			case float32:
				f = float64(xv)
			}
			if dIsInt && dw > 0 {
				if dsigned {
					return mkConst(dw, uint64(int64(f)))
				}
				return mkConst(dw, uint64(f))
			}
			if isFloat(dst) {
				if dst.Kind() == types.Float32 {
					return float32(f)
				}
				return f
			}
		}
	}
	ex.unsupported("conversion %v -> %v (%T)", tSrc, tDst, x)
	return nil
}

// ---- maps ----

func concreteKey(v Value) (string, bool) {
	switch v := v.(type) {
	case *Term:
		if v.IsConst() {
			return fmt.Sprintf("i%d:%d", v.w, v.val), true
		}
	case string:
		return "s" + v, true
	case *Value:
		return fmt.Sprintf("p%p", v), true
	case *Chan:
		return fmt.Sprintf("c%p", v), true
	case Iface:
		if v.t == nil {
			return "nil", true
		}
		if k, ok := concreteKey(v.v); ok {
			return "I" + v.t.String() + "|" + k, true
		}
	case Struct:
		s := "{"
		for _, f := range v {
			k, ok := concreteKey(f)
			if !ok {
				return "", false
			}
			s += fmt.Sprintf("%d:%s,", len(k), k)
		}
		return s + "}", true
	case Array:
		s := "["
		for _, f := range v {
			k, ok := concreteKey(f)
			if !ok {
				return "", false
			}
			s += fmt.Sprintf("%d:%s,", len(k), k)
		}
		return s + "]", true
	}
	return "", false
}

// mapFind returns the entry whose key equals key, forking on symbolic
// equalities. nil when absent.
func (ex *Exec) mapFind(m *MapV, key Value) *mapEntry {
	if m == nil {
		return nil
	}
	ck, kConc := concreteKey(key)
	if kConc && m.symKeys == 0 {
		if i, ok := m.index[ck]; ok && m.entries[i].alive {
			return m.entries[i]
		}
		return nil
	}
	for _, e := range m.entries {
		if !e.alive {
			continue
		}
		eq := ex.equals(m.keyT, key, e.key)
		if eq.IsConst() {
			if eq.val != 0 {
				return e
			}
			continue
		}
		if ex.branch(eq, "map-key") {
			return e
		}
	}
	return nil
}

func (ex *Exec) lookup(fr *Frame, instr *ssa.Lookup, x, idx Value) Value {
	switch x := x.(type) {
	case *MapV:
		var v Value
		ok := false
		if e := ex.mapFind(x, idx); e != nil {
			v, ok = copyVal(instr.X.Type().Underlying().(*types.Map).Elem(), e.val), true
		} else {
			v = zero(instr.X.Type().Underlying().(*types.Map).Elem())
		}
		if instr.CommaOk {
			return Tuple{v, mkBool(ok)}
		}
		return v
	case string, SymStr:
		bs := strBytes(x)
		i := ex.checkIndex(fr, instr.Pos(), idx.(*Term), true, len(bs))
		return bs[i]
	}
	ex.unsupported("lookup on %T", x)
	return nil
}

func (ex *Exec) mapUpdate(fr *Frame, m *MapV, key, val Value) {
	if e := ex.mapFind(m, key); e != nil {
		e.val = val
		return
	}
	e := &mapEntry{key: key, val: val, alive: true}
	m.entries = append(m.entries, e)
	m.n++
	if ck, ok := concreteKey(key); ok {
		m.index[ck] = len(m.entries) - 1
	} else {
		m.symKeys++
	}
}

func (ex *Exec) mapDelete(m *MapV, key Value) {
	if m == nil {
		return
	}
	if e := ex.mapFind(m, key); e != nil {
		e.alive = false
		m.n--
		if ck, ok := concreteKey(e.key); ok {
			delete(m.index, ck)
		} else {
			m.symKeys--
		}
	}
}

// ---- iterators ----

type iter interface {
	next(ex *Exec) Tuple
}

type mapIter struct {
	m    *MapV
	i    int
	rev  bool
	snap []*mapEntry
}

func (it *mapIter) next(ex *Exec) Tuple {
	for it.i < len(it.snap) {
		var e *mapEntry
		if it.rev {
			e = it.snap[len(it.snap)-1-it.i]
		} else {
			e = it.snap[it.i]
		}
		it.i++
		if e.alive {
			return Tuple{tTrue, e.key, e.val}
		}
	}
	return Tuple{tFalse, nil, nil}
}

type strIter struct {
	s string
	i int
}

func (it *strIter) next(ex *Exec) Tuple {
	if it.i >= len(it.s) {
		return Tuple{tFalse, mkConst(64, 0), mkConst(32, 0)}
	}
	r, n := utf8.DecodeRuneInString(it.s[it.i:])
	t := Tuple{tTrue, mkConst(64, uint64(it.i)), mkConst(32, uint64(r))}
	it.i += n
	return t
}

// symStrIter iterates a symbolic string; every byte is assumed ASCII by
// forking: a non-ASCII symbolic byte is unsupported.
type symStrIter struct {
	s SymStr
	i int
}

func (it *symStrIter) next(ex *Exec) Tuple {
	if it.i >= len(it.s) {
		return Tuple{tFalse, mkConst(64, 0), mkConst(32, 0)}
	}
	b := it.s[it.i]
	if !ex.branch(mkCmp(OpULt, b, mkConst(8, 0x80)), "range-string-ascii") {
		ex.unsupported("range over symbolic string with non-ASCII byte")
	}
	t := Tuple{tTrue, mkConst(64, uint64(it.i)), mkZExt(b, 32)}
	it.i++
	return t
}

func (ex *Exec) rangeIter(fr *Frame, x Value, t types.Type) iter {
	switch x := x.(type) {
	case *MapV:
		it := &mapIter{m: x}
		if x != nil {
			it.snap = append(it.snap, x.entries...)
			if ex.cfg.MapOrderFork && x.n > 1 {
				it.rev = ex.choose("map-order", []*Term{nil, nil}) == 1
			}
		}
		return it
	case string:
		return &strIter{s: x}
	case SymStr:
		return &symStrIter{s: x}
	}
	ex.unsupported("range over %T", x)
	return nil
}

// ---- builtins ----

func (ex *Exec) callBuiltin(caller *Frame, callpos token.Pos, fn *ssa.Builtin, args []Value) Value {
	switch fn.Name() {
	case "append":
		if len(args) == 1 {
			return args[0]
		}
		if s, ok := args[1].(string); ok {
			args[1] = bytesToValues([]byte(s))
		} else if s, ok := args[1].(SymStr); ok {
			vs := make([]Value, len(s))
			for i, b := range s {
				vs[i] = b
			}
			args[1] = vs
		}
		a := args[0].([]Value)
		b := args[1].([]Value)
		if len(b) == 0 {
			return a
		}
		// Go's growth policy is unspecified; reuse capacity when it suffices.
		if len(a)+len(b) <= cap(a) {
			r := a[:len(a)+len(b)]
			copy(r[len(a):], b)
			return r
		}
		// Go's growth policy (runtime.growslice of go1.23, incl. rounding the
		// allocation up to a malloc size class): spare capacity decides whether a
		// later append aliases, so it is modelled faithfully
		et0 := fn.Type().(*types.Signature).Params().At(0).Type().Underlying().(*types.Slice).Elem()
		nc := goGrowCap(cap(a), len(a)+len(b), elemBytes(et0))
		r := make([]Value, len(a)+len(b), nc)
		copy(r, a)
		copy(r[len(a):], b)
		var z Value
		if nc > len(r) {
			et := et0
			z = zero(et)
			full := r[:nc]
			if isScalarType(et) {
				for i := len(r); i < nc; i++ {
					full[i] = z
				}
			} else {
				for i := len(r); i < nc; i++ {
					full[i] = zero(et)
				}
			}
		}
		return r

	case "copy":
		dst := args[0].([]Value)
		var src []Value
		switch s := args[1].(type) {
		case []Value:
			src = s
		case string:
			src = bytesToValues([]byte(s))
		case SymStr:
			src = make([]Value, len(s))
			for i, b := range s {
				src[i] = b
			}
		}
		return mkConst(64, uint64(copy(dst, src)))

	case "close":
		ex.chanClose(caller, args[0], callpos)
		return nil

	case "delete":
		m := args[0].(*MapV)
		if m != nil {
			ex.noteMapWrite(caller, m)
		}
		ex.mapDelete(m, args[1])
		return nil

	case "clear":
		switch x := args[0].(type) {
		case *MapV:
			if x != nil {
				for _, e := range x.entries {
					e.alive = false
				}
				x.n = 0
				x.symKeys = 0
				x.index = map[string]int{}
			}
		case []Value:
			if len(x) > 0 {
				et := fn.Type().(*types.Signature).Params().At(0).Type().Underlying().(*types.Slice).Elem()
				for i := range x {
					x[i] = zero(et)
				}
			}
		}
		return nil

	case "print", "println":
		return nil

	case "len":
		switch x := args[0].(type) {
		case string:
			return mkConst(64, uint64(len(x)))
		case SymStr:
			return mkConst(64, uint64(len(x)))
		case Array:
			return mkConst(64, uint64(len(x)))
		case *Value:
			if x == nil {
				t := fn.Type().(*types.Signature).Params().At(0).Type()
				return mkConst(64, uint64(deref(t).Underlying().(*types.Array).Len()))
			}
			return mkConst(64, uint64(len((*x).(Array))))
		case []Value:
			return mkConst(64, uint64(len(x)))
		case *MapV:
			if x == nil {
				return mkConst(64, 0)
			}
			if caller != nil {
				ex.noteMapRead(caller, x)
			}
			return mkConst(64, uint64(x.n))
		case *Chan:
			if x == nil {
				return mkConst(64, 0)
			}
			return mkConst(64, uint64(len(x.buf)))
		}
		ex.unsupported("len of %T", args[0])

	case "cap":
		switch x := args[0].(type) {
		case Array:
			return mkConst(64, uint64(cap(x)))
		case *Value:
			return mkConst(64, uint64(len((*x).(Array))))
		case []Value:
			return mkConst(64, uint64(cap(x)))
		case *Chan:
			if x == nil {
				return mkConst(64, 0)
			}
			return mkConst(64, uint64(x.cap))
		}
		ex.unsupported("cap of %T", args[0])

	case "min", "max":
		sig := fn.Type().(*types.Signature)
		t := sig.Params().At(0).Type()
		b := basicOf(t)
		_, signed, isInt := intWidth(b)
		acc := args[0]
		for _, a := range args[1:] {
			switch {
			case isInt:
				x, y := acc.(*Term), a.(*Term)
				var lt *Term
				if signed {
					lt = mkCmp(OpSLt, x, y)
				} else {
					lt = mkCmp(OpULt, x, y)
				}
				if fn.Name() == "min" {
					acc = mkIte(lt, x, y)
				} else {
					acc = mkIte(lt, y, x)
				}
			default:
				x, ok1 := acc.(float64)
				y, ok2 := a.(float64)
				if !ok1 || !ok2 {
					ex.unsupported("min/max on %T", acc)
				}
				if fn.Name() == "min" {
					acc = math.Min(x, y)
				} else {
					acc = math.Max(x, y)
				}
			}
		}
		return acc

	case "panic":
		panic(targetPanic{v: args[0]})

	case "recover":
		return ex.doRecover(caller)

	case "ssa:wrapnilchk":
		recv := args[0]
		if p, ok := recv.(*Value); ok && p == nil {
			recvType := args[1]
			methodName := args[2]
			msg := fmt.Sprintf("value method %s.%s called using nil *%s pointer", recvType, methodName, recvType)
			panic(targetPanic{v: Iface{t: ex.p.runtimeErrorType(), v: msg}, msg: msg})
		}
		return recv

	case "ssa:deferstack":
		return &caller.defers
	}
	ex.unsupported("builtin %s", fn.Name())
	return nil
}

var goSizeClasses = []int{0, 8, 16, 24, 32, 48, 64, 80, 96, 112, 128, 144, 160, 176, 192, 208, 224, 240, 256, 288, 320, 352, 384, 416, 448, 480, 512, 576, 640, 704, 768, 896, 1024, 1152, 1280, 1408, 1536, 1792, 2048, 2304, 2688, 3072, 3200, 3456, 4096, 4864, 5376, 6144, 6528, 6784, 6912, 8192, 9472, 9728, 10240, 10880, 12288, 13568, 14336, 16384, 18432, 19072, 20480, 21760, 24576, 27264, 28672, 32768}

func goRoundUpSize(n int) int {
	if n <= 32768 {
		for _, c := range goSizeClasses {
			if c >= n {
				return c
			}
		}
	}
	const page = 8192
	return (n + page - 1) / page * page
}

// goGrowCap: the capacity runtime.growslice gives a slice of oldCap that must
// hold newLen elements of elemSize bytes.
func goGrowCap(oldCap, newLen int, elemSize int64) int {
	newcap := oldCap
	doublecap := newcap + newcap
	if newLen > doublecap {
		newcap = newLen
	} else {
		const threshold = 256
		if oldCap < threshold {
			newcap = doublecap
		} else {
			for newcap < newLen {
				newcap += (newcap + 3*threshold) >> 2
			}
		}
	}
	sz := int(elemSize)
	if sz < 1 {
		sz = 1
	}
	mem := goRoundUpSize(newcap * sz)
	c := mem / sz
	if c < newLen {
		c = newLen
	}
	return c
}
