package main

// Contract model of libp2p keys, signatures, peer IDs and signed envelopes.
//
// Keys are tokens (one byte). Signatures are ideal: Verify(k, m, s) is true
// iff s is exactly the signature a Sign(k, m) call of this run produced
// (unforgeable, deterministic). Envelope wire bytes use the model codec.
// encoding/json is replaced by the same model codec (round-trip contract).

import (
	"fmt"
	"go/types"
	"strings"
)

type keyState struct {
	id     *Term // 8-bit key identity
	priv   bool
	hashed bool // RSA/ECDSA-like: the peer ID is a hash of the key and does not embed it
}

type signRec struct {
	id       *Term
	hashed   bool // key kind: a key of another kind is another key, whatever its token
	msg, sig []*Term
}

const sigLen = 2

func (ex *Exec) mkKey(id *Term, priv bool) Value {
	return ex.mkKeyKind(id, priv, false)
}

func (ex *Exec) mkKeyKind(id *Term, priv, hashed bool) Value {
	ks := &keyState{id: id, priv: priv, hashed: hashed}
	kind := "crypto.PubKey"
	if priv {
		kind = "crypto.PrivKey"
	}
	o := &nativeObj{kind: kind, state: ks}
	o.methods = map[string]func(ex *Exec, args []Value) Value{
		"Type": func(ex *Exec, args []Value) Value { return mkConst(32, 1) }, // Ed25519
		"Raw": func(ex *Exec, args []Value) Value {
			// the shapes of real raw keys: 32 key bytes for keys that embed in their
			// peer ID; a DER structure for the others, whose first 33 bytes are the same
			// for every key of one type and size
			var raw []Value
			if hashed {
				for i := 0; i < 33; i++ {
					raw = append(raw, byteConst(0x30))
				}
				raw = append(raw, id)
			} else {
				raw = append(raw, id)
				for i := 0; i < 31; i++ {
					raw = append(raw, byteConst(0xed))
				}
			}
			return Tuple{raw, Iface{}}
		},
		"Equals": func(ex *Exec, args []Value) Value {
			other, ok := args[0].(Iface).v.(*nativeObj)
			if !ok {
				return tFalse
			}
			ok2, isK := other.state.(*keyState)
			if !isK || ok2.priv != priv {
				return tFalse
			}
			return mkEq(ok2.id, id)
		},
	}
	if priv {
		o.methods["GetPublic"] = func(ex *Exec, args []Value) Value { return ex.mkKeyKind(id, false, hashed) }
		o.methods["Sign"] = func(ex *Exec, args []Value) Value {
			msg := termsOf(args[0])
			all := append([]*Term{id}, msg...)
			sig := make([]*Term, sigLen)
			for i := range sig {
				sig[i] = mkApp(fmt.Sprintf("sign_n%d_o%d", len(msg), i), 8, all...)
			}
			// signatures of different (key, message) pairs of one run are different
			// byte strings (part of the ideal-signature contract: no collisions)
			for _, r := range ex.signs {
				if len(r.sig) != len(sig) {
					continue
				}
				if len(r.msg) == len(msg) {
					ex.addAxiom(mkOr(mkNot(ex.strEq(r.sig, sig)), mkAnd(mkEq(r.id, id), ex.strEq(r.msg, msg))))
				} else {
					ex.addAxiom(mkNot(ex.strEq(r.sig, sig)))
				}
			}
			ex.signs = append(ex.signs, &signRec{id: id, hashed: hashed, msg: msg, sig: sig})
			return Tuple{termsToValues(sig), Iface{}}
		}
	} else {
		o.methods["Verify"] = func(ex *Exec, args []Value) Value {
			msg, sig := termsOf(args[0]), termsOf(args[1])
			ex.verifies = append(ex.verifies, &signRec{id: id, msg: msg, sig: sig})
			for _, r := range ex.signs {
				if len(r.msg) != len(msg) || len(r.sig) != len(sig) || r.hashed != hashed {
					continue
				}
				c := mkAnd(mkEq(r.id, id), mkAnd(ex.strEq(r.msg, msg), ex.strEq(r.sig, sig)))
				if ex.branch(c, "verify-matches-sign") {
					return Tuple{tTrue, Iface{}}
				}
			}
			return Tuple{tFalse, Iface{}}
		}
	}
	return nativeIface(o)
}

func keyOf(ex *Exec, v Value) *keyState {
	itf, ok := v.(Iface)
	if !ok || itf.t == nil {
		return nil
	}
	no, ok := itf.v.(*nativeObj)
	if !ok {
		return nil
	}
	ks, _ := no.state.(*keyState)
	return ks
}

// peerIDOfKey: identity multihash {0x00, 0x01, id}
func peerIDOfKey(id *Term) Value {
	return mkStr([]*Term{byteConst(0), byteConst(1), id})
}

// peerIDOfHashedKey: sha2-256 multihash {0x12, 0x20, id, 0x5a x 31}: does not embed the key
func peerIDOfHashedKey(id *Term) Value {
	bs := []*Term{byteConst(0x12), byteConst(0x20), id}
	for i := 0; i < 31; i++ {
		bs = append(bs, byteConst(0x5a))
	}
	return mkStr(bs)
}

func peerIDOf(ks *keyState) Value {
	if ks.hashed {
		return peerIDOfHashedKey(ks.id)
	}
	return peerIDOfKey(ks.id)
}

func init() {
	extraIntrinsics = append(extraIntrinsics, func(p *Program) {
		const lp = "github.com/libp2p/go-libp2p/core"
		gen := func(ex *Exec, fr *Frame, args []Value) Value {
			ex.nkeys++
			id := mkConst(8, uint64(ex.nkeys))
			return Tuple{ex.mkKey(id, true), ex.mkKey(id, false), Iface{}}
		}
		p.reg(lp+"/crypto.GenerateEd25519Key", gen)
		p.reg(lp+"/crypto.GenerateKeyPair", gen)
		p.reg(lp+"/crypto.GenerateKeyPairWithReader", gen)
		p.reg(lp+"/crypto.GenerateSecp256k1Key", gen)
		genHashed := func(ex *Exec, fr *Frame, args []Value) Value {
			ex.nkeys++
			id := mkConst(8, uint64(ex.nkeys))
			return Tuple{ex.mkKeyKind(id, true, true), ex.mkKeyKind(id, false, true), Iface{}}
		}
		p.reg(lp+"/crypto.GenerateECDSAKeyPair", genHashed)
		p.reg(lp+"/crypto.GenerateRSAKeyPair", genHashed)
		p.reg(lp+"/crypto.MarshalPublicKey", func(ex *Exec, fr *Frame, args []Value) Value {
			ks := keyOf(ex, args[0])
			if ks == nil {
				return Tuple{[]Value(nil), ex.newErrorString("model: nil public key")}
			}
			if ks.hashed {
				return Tuple{[]Value{ks.id, byteConst(0xec)}, Iface{}}
			}
			return Tuple{[]Value{ks.id}, Iface{}}
		})
		p.reg(lp+"/crypto.UnmarshalPublicKey", func(ex *Exec, fr *Frame, args []Value) Value {
			b := termsOf(args[0])
			if len(b) == 2 && b[1].IsConst() && b[1].val == 0xec {
				return Tuple{ex.mkKeyKind(b[0], false, true), Iface{}}
			}
			if len(b) != 1 {
				return Tuple{Iface{}, ex.newErrorString("model: malformed public key")}
			}
			return Tuple{ex.mkKey(b[0], false), Iface{}}
		})
		idFromPub := func(ex *Exec, fr *Frame, args []Value) Value {
			ks := keyOf(ex, args[0])
			if ks == nil {
				return Tuple{"", ex.newErrorString("model: nil key")}
			}
			return Tuple{peerIDOf(ks), Iface{}}
		}
		p.reg(lp+"/peer.IDFromPublicKey", idFromPub)
		p.reg(lp+"/peer.IDFromPrivateKey", idFromPub)
		p.reg("("+lp+"/peer.ID).ExtractPublicKey", func(ex *Exec, fr *Frame, args []Value) Value {
			bs := strBytes(args[0])
			if len(bs) != 3 {
				// hashed IDs do not embed the key: the documented peer.ErrNoPublicKey
				if g := ex.p.prog.ImportedPackage(lp + "/peer"); g != nil {
					if v := g.Var("ErrNoPublicKey"); v != nil {
						return Tuple{Iface{}, *ex.globalAddr(v)}
					}
				}
				return Tuple{Iface{}, ex.newErrorString("public key is not embedded in peer ID")}
			}
			ok := mkAnd(mkEq(bs[0], byteConst(0)), mkEq(bs[1], byteConst(1)))
			if !ex.branch(ok, "extract-key") {
				return Tuple{Iface{}, ex.newErrorString("model: peer ID does not embed a key")}
			}
			return Tuple{ex.mkKey(bs[2], false), Iface{}}
		})
		p.reg("("+lp+"/peer.ID).MatchesPublicKey", func(ex *Exec, fr *Frame, args []Value) Value {
			ks := keyOf(ex, args[1])
			if ks == nil {
				return tFalse
			}
			return ex.equals(types.Typ[types.String], args[0], peerIDOf(ks))
		})
		// peer.ID text form: model = "1" + lowercase hex (injective); Decode is its inverse
		p.reg("("+lp+"/peer.ID).String", func(ex *Exec, fr *Frame, args []Value) Value {
			bs := strBytes(args[0])
			out := []*Term{byteConst('1')}
			hex := func(n *Term) *Term {
				return mkIte(mkCmp(OpULt, n, byteConst(10)), mkBin(OpAdd, n, byteConst('0')), mkBin(OpAdd, n, byteConst('a'-10)))
			}
			for _, b := range bs {
				out = append(out, hex(mkBin(OpLShr, b, byteConst(4))), hex(mkBin(OpBAnd, b, byteConst(15))))
			}
			return mkStr(out)
		})
		p.reg(lp+"/peer.Decode", func(ex *Exec, fr *Frame, args []Value) Value {
			bs := strBytes(args[0])
			bad := func() Value { return Tuple{"", ex.newErrorString("model: failed to parse peer ID")} }
			if len(bs) < 1 || len(bs)%2 != 1 {
				return bad()
			}
			if !ex.branch(mkEq(bs[0], byteConst('1')), "peer-decode-prefix") {
				return bad()
			}
			var raw []*Term
			for i := 1; i < len(bs); i += 2 {
				var nib [2]*Term
				for j := 0; j < 2; j++ {
					c := bs[i+j]
					isDigit := mkAnd(mkCmp(OpULe, byteConst('0'), c), mkCmp(OpULe, c, byteConst('9')))
					isAF := mkAnd(mkCmp(OpULe, byteConst('a'), c), mkCmp(OpULe, c, byteConst('f')))
					if !ex.branch(mkOr(isDigit, isAF), "peer-decode-hex") {
						return bad()
					}
					nib[j] = mkIte(isDigit, mkBin(OpSub, c, byteConst('0')), mkBin(OpSub, c, byteConst('a'-10)))
				}
				raw = append(raw, mkBin(OpBOr, mkBin(OpShl, nib[0], byteConst(4)), nib[1]))
			}
			f := ex.p.funcByName(lp+"/peer", "IDFromBytes")
			return ex.callSSA(fr, fr.callPos, f, []Value{termsToValues(raw)}, nil)
		})
		// buffer pool
		p.reg("github.com/libp2p/go-buffer-pool.Get", func(ex *Exec, fr *Frame, args []Value) Value {
			n := argInt(ex, args[0], "pool.Get")
			out := make([]Value, n)
			for i := range out {
				out[i] = byteConst(0)
			}
			return out
		})
		p.reg("github.com/libp2p/go-buffer-pool.Put", func(ex *Exec, fr *Frame, args []Value) Value { return nil })

		// envelope wire format (model codec): key id, type, payload, signature
		p.reg("(*"+lp+"/record.Envelope).Marshal", func(ex *Exec, fr *Frame, args []Value) Value {
			e := (*ex.nonNil(fr, args[0])).(Struct)
			ks := keyOf(ex, e[0])
			if ks == nil {
				return Tuple{[]Value(nil), ex.newErrorString("model: envelope without key")}
			}
			var out []*Term
			out = append(out, ks.id)
			if ks.hashed {
				out = append(out, byteConst(1))
			} else {
				out = append(out, byteConst(0))
			}
			for _, f := range []Value{e[1], e[2], e[3]} {
				bs := termsOf(f)
				if len(bs) > 250 {
					ex.unsupported("model envelope: field longer than 250 bytes")
				}
				out = append(out, byteConst(byte(len(bs))))
				out = append(out, bs...)
			}
			return Tuple{termsToValues(out), Iface{}}
		})
		p.reg(lp+"/record.UnmarshalEnvelope", func(ex *Exec, fr *Frame, args []Value) Value {
			data := termsOf(args[0])
			bad := func(msg string) Value {
				return Tuple{(*Value)(nil), ex.newErrorString("model envelope: " + msg)}
			}
			if len(data) < 2 {
				return bad("empty")
			}
			if !ex.branch(mkCmp(OpULe, data[1], byteConst(1)), "envelope-keykind") {
				return bad("unknown key type")
			}
			hashedKey := ex.branch(mkEq(data[1], byteConst(1)), "envelope-keykind-hashed")
			pos := 2
			var fields [3][]*Term
			for i := 0; i < 3; i++ {
				if pos >= len(data) {
					return bad("truncated")
				}
				n := data[pos]
				pos++
				rem := len(data) - pos
				if !ex.branch(mkCmp(OpULe, mkZExt(n, 64), mkConst(64, uint64(rem))), "envelope-len") {
					return bad("field length beyond input")
				}
				k := int(ex.concretize(n, "envelope-len"))
				fields[i] = data[pos : pos+k]
				pos += k
			}
			if pos != len(data) {
				return bad("trailing bytes")
			}
			et := ex.p.namedType(lp+"/record", "Envelope")
			env := zero(et).(Struct)
			env[0] = ex.mkKeyKind(data[0], false, hashedKey)
			env[1] = termsToValues(fields[0])
			env[2] = termsToValues(fields[1])
			env[3] = termsToValues(fields[2])
			var cell Value = env
			return Tuple{&cell, Iface{}}
		})
		// the registry of record types: the repository's own types count as
		// registered only if RegisterType was really called for them on this path
		// (libp2p's own types are registered by libp2p's initialisers, not run here)
		p.reg(lp+"/record.RegisterType", func(ex *Exec, fr *Frame, args []Value) Value {
			if itf, ok := args[0].(Iface); ok && itf.t != nil {
				if ex.recordReg == nil {
					ex.recordReg = map[string]bool{}
				}
				ex.recordReg[itf.t.String()] = true
			}
			return nil
		})
		p.reg(lp+"/record.blankRecordForPayloadType", func(ex *Exec, fr *Frame, args []Value) Value {
			pt, ok := concreteBytes(args[0].([]Value))
			if !ok {
				// fork over the known payload types
				for _, cand := range recordTypes {
					if ex.branch(ex.strEq(termsOf(args[0]), strBytes(cand.codec)), "payload-type") {
						pt = []byte(cand.codec)
						ok = true
						break
					}
				}
				if !ok {
					return Tuple{Iface{}, ex.newErrorString("payload type is not registered")}
				}
			}
			for _, cand := range recordTypes {
				if cand.codec == string(pt) {
					t := ex.p.namedType(cand.pkg, cand.name)
					if t == nil {
						ex.unsupported("record type %s.%s not loaded", cand.pkg, cand.name)
					}
					if strings.HasPrefix(cand.pkg, "github.com/ipni/go-libipni") {
						// the package's initialisers have run by now in a real process
						if sp := ex.p.prog.ImportedPackage(cand.pkg); sp != nil && !ex.inited[sp] {
							ex.allocGlobals(sp)
							ex.initPkg(sp)
						}
						if !ex.recordReg[types.NewPointer(t).String()] {
							return Tuple{Iface{}, ex.newErrorString("payload type is not registered")}
						}
					}
					v := zero(t)
					return Tuple{Iface{t: types.NewPointer(t), v: &v}, Iface{}}
				}
			}
			return Tuple{Iface{}, ex.newErrorString("payload type is not registered")}
		})
		// PeerRecord <-> bytes (model codec; addresses by their byte form)
		p.reg("(*"+lp+"/peer.PeerRecord).MarshalRecord", func(ex *Exec, fr *Frame, args []Value) Value {
			r := (*ex.nonNil(fr, args[0])).(Struct)
			var out []*Term
			id := strBytes(r[0])
			out = append(out, byteConst(byte(len(id))))
			out = append(out, id...)
			addrs, _ := r[1].([]Value)
			out = append(out, byteConst(byte(len(addrs))))
			maT := ex.p.namedType("github.com/multiformats/go-multiaddr", "Multiaddr")
			bytesFn := ex.findMethod(maT, "Bytes")
			if bytesFn == nil {
				ex.unsupported("multiaddr.Multiaddr.Bytes not found")
			}
			for _, a := range addrs {
				res := ex.callSSA(fr, fr.callPos, bytesFn, []Value{a}, nil)
				bs := termsOf(res)
				out = append(out, byteConst(byte(len(bs))))
				out = append(out, bs...)
			}
			seq := r[2].(*Term)
			for i := 0; i < 8; i++ {
				out = append(out, mkExtract(seq, 8*i+7, 8*i))
			}
			return Tuple{termsToValues(out), Iface{}}
		})
		p.reg("(*"+lp+"/peer.PeerRecord).UnmarshalRecord", func(ex *Exec, fr *Frame, args []Value) Value {
			cell := ex.nonNil(fr, args[0])
			data := termsOf(args[1])
			pos := 0
			bad := func() Value { return ex.newErrorString("model peer record: malformed") }
			take := func() ([]*Term, bool) {
				if pos >= len(data) {
					return nil, false
				}
				n := data[pos]
				pos++
				rem := len(data) - pos
				if !ex.branch(mkCmp(OpULe, mkZExt(n, 64), mkConst(64, uint64(rem))), "peerrec-len") {
					return nil, false
				}
				k := int(ex.concretize(n, "peerrec-len"))
				f := data[pos : pos+k]
				pos += k
				return f, true
			}
			id, ok := take()
			if !ok {
				return bad()
			}
			if pos >= len(data) {
				return bad()
			}
			na := int(ex.concretize(data[pos], "peerrec-naddrs"))
			pos++
			newMA := ex.p.funcByName("github.com/multiformats/go-multiaddr", "NewMultiaddrBytes")
			var addrs []Value
			for i := 0; i < na; i++ {
				ab, ok := take()
				if !ok {
					return bad()
				}
				res := ex.callSSA(fr, fr.callPos, newMA, []Value{termsToValues(ab)}, nil).(Tuple)
				if e := res[1].(Iface); e.t != nil {
					return e
				}
				addrs = append(addrs, res[0])
			}
			if len(data)-pos != 8 {
				return bad()
			}
			seq := mkConst(64, 0)
			for i := 0; i < 8; i++ {
				seq = mkBin(OpBOr, seq, mkBin(OpShl, mkZExt(data[pos+i], 64), mkConst(64, uint64(8*i))))
			}
			r := (*cell).(Struct)
			r[0] = mkStr(id)
			r[1] = addrs
			r[2] = seq
			return Iface{}
		})
		p.reg(lp+"/peer.TimestampSeq", func(ex *Exec, fr *Frame, args []Value) Value {
			ex.seqCounter++
			return mkConst(64, uint64(1000+ex.seqCounter))
		})

		// encoding/json as a model codec over the static Go type
		p.reg("encoding/json.Marshal", func(ex *Exec, fr *Frame, args []Value) Value {
			itf := args[0].(Iface)
			if itf.t == nil {
				return Tuple{bytesToValues([]byte("null")), Iface{}}
			}
			f := &flatEnc{ex: ex}
			t, v := itf.t, itf.v
			for {
				pt, isPtr := t.Underlying().(*types.Pointer)
				if !isPtr {
					break
				}
				pv := v.(*Value)
				if pv == nil {
					return Tuple{bytesToValues([]byte("null")), Iface{}}
				}
				t, v = pt.Elem(), *pv
			}
			f.enc(t, v)
			return Tuple{termsToValues(f.out), Iface{}}
		})
		p.reg("encoding/json.Unmarshal", func(ex *Exec, fr *Frame, args []Value) Value {
			itf := args[1].(Iface)
			pt, ok := itf.t.Underlying().(*types.Pointer)
			if itf.t == nil || !ok {
				return ex.newErrorString("json: Unmarshal(non-pointer)")
			}
			cell := itf.v.(*Value)
			if cell == nil {
				return ex.newErrorString("json: Unmarshal(nil)")
			}
			rd := &sliceReader{data: termsOf(args[0])}
			d := &flatDec{ex: ex, fr: fr, r: rd.iface(ex)}
			v := d.dec(pt.Elem())
			if d.fail != "" {
				return ex.codecError(d.fail)
			}
			for {
				b, more := d.tryByte()
				if !more {
					break
				}
				ws := mkOr(mkOr(mkEq(b, byteConst(' ')), mkEq(b, byteConst('\n'))), mkOr(mkEq(b, byteConst('\r')), mkEq(b, byteConst('\t'))))
				if !ex.branch(ws, "json-trailing-ws") {
					return ex.codecError("trailing data")
				}
			}
			// encoding/json appends to a slice after resetting its length to zero: elements
			// within the old capacity are decoded INTO what the backing array already
			// holds (a non-nil pointer is reused, not replaced), and the result shares
			// that backing array.
			if nv, ok := v.([]Value); ok {
				if old, ok := (*cell).([]Value); ok && cap(old) > 0 {
					full := old[:cap(old)]
					for i := range nv {
						if i >= len(full) {
							break
						}
						if op, ok := full[i].(*Value); ok && op != nil {
							if np, ok := nv[i].(*Value); ok && np != nil {
								*op = *np
								nv[i] = op
							}
						}
						full[i] = nv[i]
					}
					if len(nv) <= len(full) {
						v = full[:len(nv)]
					}
				}
			}
			store(pt.Elem(), cell, v)
			return Iface{}
		})
	})
}

type recType struct{ codec, pkg, name string }

var recordTypes = []recType{
	{"indexer-ingest-request", "github.com/ipni/go-libipni/ingest/model", "IngestRequest"},
	{"\x03\x01", "github.com/libp2p/go-libp2p/core/peer", "PeerRecord"},
}

// sliceReader is a native io.Reader over terms.
type sliceReader struct {
	data []*Term
	pos  int
}

func (s *sliceReader) iface(ex *Exec) Value {
	o := &nativeObj{kind: "sliceReader", state: s}
	o.methods = map[string]func(ex *Exec, args []Value) Value{
		"Read": func(ex *Exec, args []Value) Value {
			buf := args[0].([]Value)
			if s.pos >= len(s.data) {
				return Tuple{mkConst(64, 0), ex.eofError()}
			}
			n := 0
			for n < len(buf) && s.pos < len(s.data) {
				buf[n] = s.data[s.pos]
				n++
				s.pos++
			}
			return Tuple{mkConst(64, uint64(n)), Iface{}}
		},
	}
	return nativeIface(o)
}

func (ex *Exec) eofError() Value {
	pkg := ex.p.prog.ImportedPackage("io")
	if pkg != nil {
		if g, ok := pkg.Members["EOF"]; ok {
			if gg, ok := g.(interface{ Type() types.Type }); ok {
				_ = gg
			}
		}
		if g := pkg.Var("EOF"); g != nil {
			return *ex.globalAddr(g)
		}
	}
	return ex.newErrorString("EOF")
}

// json.Encoder.Encode: one model-codec value per call, newline-terminated, as
// the real encoder writes one line per call.
func init() {
	extraIntrinsics = append(extraIntrinsics, func(p *Program) {
		p.reg("(*encoding/json.Encoder).Encode", func(ex *Exec, fr *Frame, args []Value) Value {
			encT := ex.p.namedType("encoding/json", "Encoder")
			enc := (*ex.nonNil(fr, args[0])).(Struct)
			w := ex.getField(enc, encT, "w")
			itf := args[1].(Iface)
			f := &flatEnc{ex: ex}
			if itf.t == nil {
				f.out = strBytes("null")
			} else {
				t, v := itf.t, itf.v
				for {
					pt, isPtr := t.Underlying().(*types.Pointer)
					if !isPtr {
						break
					}
					pv := v.(*Value)
					if pv == nil {
						f.out = strBytes("null")
						t = nil
						break
					}
					t, v = pt.Elem(), *pv
				}
				if t != nil {
					f.enc(t, v)
				}
			}
			out := append(termsToValues(f.out), byteConst('\n'))
			res := ex.invoke(fr, w, "Write", out).(Tuple)
			return res[1]
		})
	})
}
