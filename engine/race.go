package main

// Happens-before data-race detection over the interpreted goroutines (option
// "races" in a harness's cfg). Every thread carries a vector clock; every
// synchronisation object (mutex, channel, atomic cell, WaitGroup, Once, sync.Map,
// Pool, …) accumulates the clocks of the threads that operated on it and hands
// them to the next thread operating on it — an OVER-approximation of Go's
// happens-before relation (e.g. all operations on one channel are ordered), so a
// reported pair of accesses is unordered under the real relation too, while some
// real races are missed. Only accesses made by the repository's own non-harness
// code are recorded. Candidates are confirmed by a native `-race` stress replay.

import (
	"fmt"
	"strings"

	"golang.org/x/tools/go/ssa"
)

type vclock []uint32

func (v vclock) get(i int) uint32 {
	if i < len(v) {
		return v[i]
	}
	return 0
}

func joinVC(a, b vclock) vclock {
	if len(b) > len(a) {
		a = append(a, make(vclock, len(b)-len(a))...)
	}
	for i, x := range b {
		if x > a[i] {
			a[i] = x
		}
	}
	return a
}

type accessRec struct {
	t   int
	c   uint32
	pos string
}

type shadowCell struct {
	w     accessRec
	hasW  bool
	reads []accessRec
}

type raceState struct {
	objs    map[*nativeObj]*shadowCell
	obj     map[interface{}]vclock
	cells   map[*Value]*shadowCell
	maps    map[*MapV]*shadowCell
	tracked map[*ssa.Function]bool
	seen    map[string]bool
}

func (ex *Exec) raceOn() bool { return ex.cfg.Races && len(ex.threads) > 1 }

func (ex *Exec) rs() *raceState {
	if ex.race == nil {
		ex.race = &raceState{objs: map[*nativeObj]*shadowCell{}, obj: map[interface{}]vclock{}, cells: map[*Value]*shadowCell{}, maps: map[*MapV]*shadowCell{}, tracked: map[*ssa.Function]bool{}, seen: map[string]bool{}}
	}
	return ex.race
}

func (ex *Exec) tvc(t *Thread) vclock {
	if len(t.vc) <= t.id {
		t.vc = append(t.vc, make(vclock, t.id+1-len(t.vc))...)
		t.vc[t.id] = 1
	}
	return t.vc
}

// syncOn: the current thread operates on synchronisation object key.
func (ex *Exec) syncOn(key interface{}) {
	if !ex.cfg.Races || key == nil || ex.killed {
		return
	}
	t := ex.cur
	r := ex.rs()
	vc := joinVC(ex.tvc(t), r.obj[key])
	t.vc = vc
	r.obj[key] = append(vclock(nil), vc...)
	t.vc[t.id]++
}

// syncSpawn: the child starts with the parent's clock.
func (ex *Exec) syncSpawn(parent, child *Thread) {
	if !ex.cfg.Races {
		return
	}
	pv := ex.tvc(parent)
	child.vc = append(vclock(nil), pv...)
	ex.tvc(child)
	parent.vc[parent.id]++
}

// syncBarrier: everything every thread did so far happens before what the
// current thread does next (harness quiescence points).
func (ex *Exec) syncBarrier() {
	if !ex.cfg.Races {
		return
	}
	t := ex.cur
	vc := ex.tvc(t)
	for _, o := range ex.threads {
		if o != t {
			vc = joinVC(vc, ex.tvc(o))
		}
	}
	t.vc = vc
	t.vc[t.id]++
}

func (ex *Exec) trackedFn(fn *ssa.Function) bool {
	r := ex.rs()
	if b, ok := r.tracked[fn]; ok {
		return b
	}
	b := false
	root := fn
	for root.Parent() != nil {
		root = root.Parent()
	}
	if root.Pkg != nil && strings.HasPrefix(root.Pkg.Pkg.Path(), "github.com/ipni/go-libipni") && fn.Pos().IsValid() {
		file := ex.p.prog.Fset.Position(fn.Pos()).Filename
		b = !strings.Contains(file, "zz_verif")
	}
	r.tracked[fn] = b
	return b
}

func (ex *Exec) here(fr *Frame) string {
	if ex.lastInstr != nil && ex.lastFrame == fr {
		return ex.posOf(fr, ex.lastInstr.Pos())
	}
	return fr.fn.String()
}

func (ex *Exec) reportRace(kind string, a accessRec, bpos string, what string) {
	r := ex.rs()
	key := a.pos + "|" + bpos
	if r.seen[key] || r.seen[bpos+"|"+a.pos] {
		return
	}
	r.seen[key] = true
	m := ex.model
	ex.recordViolation("race", "no-data-race", bpos,
		fmt.Sprintf("%s: %s by goroutine %d at %s is not ordered (happens-before) with the access by goroutine %d at %s", what, kind, a.t, a.pos, ex.cur.id, bpos), m)
}

func (ex *Exec) access(fr *Frame, s *shadowCell, write bool, what string) {
	t := ex.cur
	vc := ex.tvc(t)
	pos := ex.here(fr)
	if s.hasW && s.w.t != t.id && s.w.c > vc.get(s.w.t) {
		ex.reportRace("write", s.w, pos, what)
	}
	if write {
		for _, rd := range s.reads {
			if rd.t != t.id && rd.c > vc.get(rd.t) {
				ex.reportRace("read", rd, pos, what)
			}
		}
		s.w, s.hasW = accessRec{t.id, vc[t.id], pos}, true
		s.reads = s.reads[:0]
		return
	}
	for i := range s.reads {
		if s.reads[i].t == t.id {
			s.reads[i].c, s.reads[i].pos = vc[t.id], pos
			return
		}
	}
	s.reads = append(s.reads, accessRec{t.id, vc[t.id], pos})
}

func (ex *Exec) noteWrite(fr *Frame, p *Value) {
	if p == nil || !ex.raceOn() || !ex.trackedFn(fr.fn) {
		return
	}
	r := ex.rs()
	s := r.cells[p]
	if s == nil {
		s = &shadowCell{}
		r.cells[p] = s
	}
	ex.access(fr, s, true, "memory location")
}

func (ex *Exec) noteRead(fr *Frame, p *Value) {
	if p == nil || !ex.raceOn() || !ex.trackedFn(fr.fn) {
		return
	}
	r := ex.rs()
	s := r.cells[p]
	if s == nil {
		s = &shadowCell{}
		r.cells[p] = s
	}
	ex.access(fr, s, false, "memory location")
}

func (ex *Exec) noteMapAccess(fr *Frame, m *MapV, write bool) {
	if m == nil || !ex.raceOn() || !ex.trackedFn(fr.fn) {
		return
	}
	r := ex.rs()
	s := r.maps[m]
	if s == nil {
		s = &shadowCell{}
		r.maps[m] = s
	}
	ex.access(fr, s, write, "map")
}

func (ex *Exec) noteMapWrite(fr *Frame, m *MapV) { ex.noteMapAccess(fr, m, true) }
func (ex *Exec) noteMapRead(fr *Frame, m *MapV)  { ex.noteMapAccess(fr, m, false) }

// noteObjAccess: a method call on a modelled stateful library object.
func (ex *Exec) noteObjAccess(fr *Frame, o *nativeObj, write bool) {
	if o == nil || !write || !ex.raceOn() || !ex.trackedFn(fr.fn) {
		return
	}
	r := ex.rs()
	s := r.objs[o]
	if s == nil {
		s = &shadowCell{}
		r.objs[o] = s
	}
	ex.access(fr, s, true, "state of a "+o.kind+" object")
}
