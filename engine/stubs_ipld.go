package main

// Contract model of go-ipld-prime's reflection-driven pieces (bindnode,
// dag-cbor/dag-json codecs). The codecs are replaced by a *model codec*: a
// self-delimiting flat encoding of the bound Go value. It satisfies the
// documented contract the repo relies on: Decode(Encode(x)) == x, Decode
// rejects malformed input and (by default) trailing bytes, both are total.

import (
	"go/types"
)

var nativeType = types.NewNamed(types.NewTypeName(0, nil, "verifNative", nil), types.NewStruct(nil, nil), nil)

func nativeIface(o *nativeObj) Iface { return Iface{t: nativeType, v: o} }

// invoke calls method name on an interface value (interpreted or native).
func (ex *Exec) invoke(fr *Frame, recv Value, name string, args ...Value) Value {
	itf, ok := recv.(Iface)
	if !ok || itf.t == nil {
		ex.throwMsg(fr, fr.callPos, "invalid memory address or nil pointer dereference (nil interface in "+name+")")
	}
	if no, ok := itf.v.(*nativeObj); ok {
		m := no.method(ex, name)
		if m == nil {
			ex.unsupported("native %s has no method %s", no.kind, name)
		}
		return m.fn(ex, args)
	}
	f := ex.findMethod(itf.t, name)
	if f == nil {
		// unexported methods need the package; try all
		ex.unsupported("no method %s on %v", name, itf.t)
	}
	return ex.callSSA(fr, fr.callPos, f, append([]Value{itf.v}, args...), nil)
}

// readAll drains an io.Reader value.
func (ex *Exec) readAll(fr *Frame, r Value) ([]*Term, Value) {
	var out []*Term
	for i := 0; i < 64; i++ {
		buf := make([]Value, 32)
		for j := range buf {
			buf[j] = byteConst(0)
		}
		res := ex.invoke(fr, r, "Read", buf).(Tuple)
		n := int(ex.concretize(res[0].(*Term), "read-n"))
		for j := 0; j < n; j++ {
			out = append(out, buf[j].(*Term))
		}
		if e := res[1].(Iface); e.t != nil {
			return out, e
		}
		if n == 0 {
			return out, Iface{}
		}
	}
	ex.unsupported("readAll: reader did not end")
	return nil, nil
}

type flatEnc struct {
	ex  *Exec
	out []*Term
}

func (f *flatEnc) enc(t types.Type, v Value) {
	ex := f.ex
	switch ut := t.Underlying().(type) {
	case *types.Basic:
		if w, _, ok := intWidth(ut); ok {
			x := v.(*Term)
			if w == 0 {
				f.out = append(f.out, boolToBV(x, 8))
				return
			}
			for i := 0; i < w/8; i++ {
				f.out = append(f.out, mkExtract(x, 8*i+7, 8*i))
			}
			return
		}
		if ut.Info()&types.IsString != 0 {
			bs := strBytes(v)
			if len(bs) > 40 {
				// long form (concrete lengths only): 0xfe, then the length in two bytes
				if len(bs) > 0xffff {
					ex.unsupported("model codec: string longer than 65535")
				}
				f.out = append(f.out, byteConst(0xfe), byteConst(byte(len(bs))), byteConst(byte(len(bs)>>8)))
				f.out = append(f.out, bs...)
				return
			}
			f.out = append(f.out, byteConst(byte(len(bs))))
			f.out = append(f.out, bs...)
			return
		}
	case *types.Struct:
		s, ok := v.(Struct)
		if !ok {
			ex.unsupported("model codec: struct value is %T", v)
		}
		for i := 0; i < ut.NumFields(); i++ {
			f.enc(ut.Field(i).Type(), s[i])
		}
		return
	case *types.Pointer:
		p := v.(*Value)
		if p == nil {
			f.out = append(f.out, byteConst(0))
			return
		}
		f.out = append(f.out, byteConst(1))
		f.enc(ut.Elem(), *p)
		return
	case *types.Slice:
		vs := v.([]Value)
		if vs == nil {
			f.out = append(f.out, byteConst(0xff))
			return
		}
		if len(vs) > 16 {
			// long form (concrete lengths only): 0xfe, then the length in two bytes
			if len(vs) > 0xffff {
				ex.unsupported("model codec: slice longer than 65535")
			}
			f.out = append(f.out, byteConst(0xfe), byteConst(byte(len(vs))), byteConst(byte(len(vs)>>8)))
			for _, e := range vs {
				f.enc(ut.Elem(), e)
			}
			return
		}
		f.out = append(f.out, byteConst(byte(len(vs))))
		for _, e := range vs {
			f.enc(ut.Elem(), e)
		}
		return
	case *types.Array:
		for _, e := range v.(Array) {
			f.enc(ut.Elem(), e)
		}
		return
	case *types.Interface:
		itf := v.(Iface)
		if itf.t == nil {
			f.out = append(f.out, byteConst(0))
			return
		}
		// links / nodes: encode the dynamic value with a tag
		f.out = append(f.out, byteConst(1))
		f.enc(itf.t, itf.v)
		return
	}
	ex.unsupported("model codec: cannot encode %v", t)
}

type flatDec struct {
	ex   *Exec
	fr   *Frame
	r    Value // io.Reader
	n    int
	fail string
	eof  bool
	// bytesNonNil: a nil []byte is decoded as an empty non-nil one (IPLD codecs)
	bytesNonNil bool
}

// tryByte pulls one byte from the reader; ok=false at end of input / error.
func (d *flatDec) tryByte() (*Term, bool) {
	if d.eof {
		return nil, false
	}
	buf := []Value{byteConst(0)}
	for tries := 0; tries < 3; tries++ {
		res := d.ex.invoke(d.fr, d.r, "Read", buf).(Tuple)
		n := int(d.ex.concretize(res[0].(*Term), "read-n"))
		if n == 1 {
			d.n++
			return buf[0].(*Term), true
		}
		if e := res[1].(Iface); e.t != nil {
			d.eof = true
			return nil, false
		}
	}
	d.eof = true
	return nil, false
}

func (d *flatDec) byte() *Term {
	b, ok := d.tryByte()
	if !ok {
		if d.fail == "" {
			d.fail = "unexpected end of input"
		}
		return byteConst(0)
	}
	return b
}

func (d *flatDec) bytes(k int) []*Term {
	out := make([]*Term, 0, k)
	for i := 0; i < k && d.fail == ""; i++ {
		out = append(out, d.byte())
	}
	return out
}

func (d *flatDec) dec(t types.Type) Value {
	ex := d.ex
	if d.fail != "" {
		return zero(t)
	}
	switch ut := t.Underlying().(type) {
	case *types.Basic:
		if w, _, ok := intWidth(ut); ok {
			if w == 0 {
				b := d.byte()
				if d.fail != "" {
					return tFalse
				}
				if !ex.branch(mkCmp(OpULe, b, byteConst(1)), "codec-bool") {
					d.fail = "invalid boolean"
					return tFalse
				}
				return mkEq(b, byteConst(1))
			}
			x := mkConst(w, 0)
			for i := 0; i < w/8; i++ {
				b := d.byte()
				x = mkBin(OpBOr, x, mkBin(OpShl, mkZExt(b, w), mkConst(w, uint64(8*i))))
			}
			return x
		}
		if ut.Info()&types.IsString != 0 {
			n := d.byte()
			if d.fail != "" {
				return ""
			}
			if n.IsConst() && n.val == 0xfe {
				// long form; on symbolic input the long form is not part of the model
				lo, hi := d.byte(), d.byte()
				if d.fail != "" {
					return ""
				}
				if !lo.IsConst() || !hi.IsConst() {
					d.fail = "string length out of range"
					return ""
				}
				bs := d.bytes(int(lo.val) | int(hi.val)<<8)
				if d.fail != "" {
					return ""
				}
				return mkStr(bs)
			}
			if !ex.branch(mkCmp(OpULe, n, byteConst(40)), "codec-strlen") {
				d.fail = "string length out of range"
				return ""
			}
			k := int(ex.concretize(n, "codec-strlen"))
			bs := d.bytes(k)
			if d.fail != "" {
				return ""
			}
			return mkStr(bs)
		}
	case *types.Struct:
		s := make(Struct, ut.NumFields())
		for i := range s {
			s[i] = d.dec(ut.Field(i).Type())
		}
		return s
	case *types.Pointer:
		b := d.byte()
		if d.fail != "" {
			return (*Value)(nil)
		}
		if !ex.branch(mkCmp(OpULe, b, byteConst(1)), "codec-ptr") {
			d.fail = "invalid pointer tag"
			return (*Value)(nil)
		}
		if ex.branch(mkEq(b, byteConst(0)), "codec-nil") {
			return (*Value)(nil)
		}
		v := d.dec(ut.Elem())
		return &v
	case *types.Slice:
		n := d.byte()
		if d.fail != "" {
			return []Value(nil)
		}
		if n.IsConst() && n.val == 0xfe {
			// long form; on symbolic input the long form is not part of the model
			lo, hi := d.byte(), d.byte()
			if d.fail != "" {
				return []Value(nil)
			}
			if !lo.IsConst() || !hi.IsConst() {
				d.fail = "slice length out of range"
				return []Value(nil)
			}
			k := int(lo.val) | int(hi.val)<<8
			out := make([]Value, 0, k)
			for i := 0; i < k && d.fail == ""; i++ {
				out = append(out, d.dec(ut.Elem()))
			}
			return out
		}
		if ex.branch(mkEq(n, byteConst(0xff)), "codec-nilslice") {
			if b, ok := ut.Elem().Underlying().(*types.Basic); ok && b.Kind() == types.Uint8 && d.bytesNonNil {
				return []Value{}
			}
			return []Value(nil)
		}
		if !ex.branch(mkCmp(OpULe, n, byteConst(16)), "codec-slicelen") {
			d.fail = "slice length out of range"
			return []Value(nil)
		}
		k := int(ex.concretize(n, "codec-slicelen"))
		out := make([]Value, 0, k)
		for i := 0; i < k && d.fail == ""; i++ {
			out = append(out, d.dec(ut.Elem()))
		}
		return out
	case *types.Array:
		a := make(Array, ut.Len())
		for i := range a {
			a[i] = d.dec(ut.Elem())
		}
		return a
	case *types.Interface:
		// only IPLD links are supported: dynamic type cidlink.Link
		if ut.NumMethods() > 0 && ut.Method(0).Pkg() != nil && ut.Method(0).Pkg().Path() == "github.com/ipld/go-ipld-prime/datamodel" {
			b := d.byte()
			if d.fail != "" {
				return Iface{}
			}
			if !ex.branch(mkCmp(OpULe, b, byteConst(1)), "codec-link") {
				d.fail = "invalid link tag"
				return Iface{}
			}
			if ex.branch(mkEq(b, byteConst(0)), "codec-nil-link") {
				return Iface{}
			}
			lt := ex.p.namedType("github.com/ipld/go-ipld-prime/linking/cid", "Link")
			if lt == nil {
				ex.unsupported("model codec: cidlink.Link not loaded")
			}
			v := d.dec(lt)
			return Iface{t: lt, v: v}
		}
	}
	ex.unsupported("model codec: cannot decode %v", t)
	return nil
}

func (ex *Exec) codecError(msg string) Value {
	return ex.newErrorString("model codec: " + msg)
}

type protoState struct {
	goPtrType types.Type // *T
	self      *nativeObj
}
type builderState struct {
	proto *protoState
	built Value // Iface{*T, ptr}
}
type nodeState struct {
	ptr Iface
}

func (ex *Exec) mkProto(goPtrType types.Type) *nativeObj {
	ps := &protoState{goPtrType: goPtrType}
	o := &nativeObj{kind: "bindnode.Prototype", state: ps}
	ps.self = o
	o.methods = map[string]func(ex *Exec, args []Value) Value{
		"Type": func(ex *Exec, args []Value) Value {
			return nativeIface(&nativeObj{kind: "schema.Type", methods: map[string]func(ex *Exec, args []Value) Value{}, state: ps})
		},
		"NewBuilder": func(ex *Exec, args []Value) Value {
			bs := &builderState{proto: ps}
			b := &nativeObj{kind: "bindnode.Builder", state: bs}
			b.methods = map[string]func(ex *Exec, args []Value) Value{
				"Build": func(ex *Exec, args []Value) Value {
					if bs.built == nil {
						ex.throwMsg(nil, 0, "model bindnode: Build on empty builder")
					}
					return ex.mkNode(bs.built.(Iface), ps.self)
				},
				"Reset": func(ex *Exec, args []Value) Value { bs.built = nil; return nil },
			}
			return nativeIface(b)
		},
		"Representation": func(ex *Exec, args []Value) Value { return nativeIface(o) },
	}
	return o
}

func (ex *Exec) mkNode(ptr Iface, proto *nativeObj) Value {
	ns := &nodeState{ptr: ptr}
	n := &nativeObj{kind: "bindnode.Node", state: ns}
	n.methods = map[string]func(ex *Exec, args []Value) Value{
		"Representation": func(ex *Exec, args []Value) Value { return nativeIface(n) },
		"Type":           func(ex *Exec, args []Value) Value { return Iface{} },
		"Prototype": func(ex *Exec, args []Value) Value {
			if proto != nil {
				return nativeIface(proto)
			}
			return nativeIface(ex.mkProto(ptr.t))
		},
		"Kind": func(ex *Exec, args []Value) Value { return mkConst(8, 2) }, // datamodel.Kind_Map
	}
	return nativeIface(n)
}

func doDecode(ex *Exec, fr *Frame, bs *builderState, r Value, allowTrailing bool) Value {
	// (bindnode decodes an empty byte string into an empty, non-nil []byte)
	d := &flatDec{ex: ex, fr: fr, r: r, bytesNonNil: true}
	v := d.dec(deref(bs.proto.goPtrType))
	if d.fail != "" {
		return ex.codecError(d.fail)
	}
	if !allowTrailing {
		if _, more := d.tryByte(); more {
			return ex.codecError("unexpected content after end of object")
		}
	}
	bs.built = Iface{t: bs.proto.goPtrType, v: &v}
	return Iface{}
}

func init() {
	extraIntrinsics = append(extraIntrinsics, func(p *Program) {
		const ipld = "github.com/ipld/go-ipld-prime"
		p.reg(ipld+".LoadSchemaBytes", func(ex *Exec, fr *Frame, args []Value) Value {
			return Tuple{Opaque{"schema.TypeSystem"}, Iface{}}
		})
		typeByName := func(ex *Exec, fr *Frame, args []Value) Value {
			return nativeIface(&nativeObj{kind: "schema.Type", methods: map[string]func(ex *Exec, args []Value) Value{}})
		}
		p.reg("(*"+ipld+"/schema.TypeSystem).TypeByName", typeByName)
		p.reg("("+ipld+"/schema.TypeSystem).TypeByName", typeByName)
		p.reg(ipld+"/node/bindnode.Prototype", func(ex *Exec, fr *Frame, args []Value) Value {
			itf := args[0].(Iface)
			return nativeIface(ex.mkProto(itf.t))
		})
		p.reg(ipld+"/node/bindnode.Wrap", func(ex *Exec, fr *Frame, args []Value) Value {
			var proto *nativeObj
			if ti, ok := args[1].(Iface); ok {
				if no, ok := ti.v.(*nativeObj); ok {
					if ps, ok := no.state.(*protoState); ok {
						proto = ps.self
					}
				}
			}
			return ex.mkNode(args[0].(Iface), proto)
		})
		p.reg(ipld+"/node/bindnode.Unwrap", func(ex *Exec, fr *Frame, args []Value) Value {
			itf := args[0].(Iface)
			if no, ok := itf.v.(*nativeObj); ok {
				if ns, ok := no.state.(*nodeState); ok {
					return ns.ptr
				}
			}
			return Iface{}
		})
		encode := func(ex *Exec, fr *Frame, args []Value) Value {
			itf := args[0].(Iface)
			no, ok := itf.v.(*nativeObj)
			if !ok {
				if ex.p.stubSet["real-ipld"] {
					return fallThrough{} // a real (basicnode) node: run the real codec
				}
				ex.unsupported("model codec: Encode of non-bindnode node %v", itf.t)
			}
			ns, ok := no.state.(*nodeState)
			if !ok {
				ex.unsupported("model codec: Encode of %s", no.kind)
			}
			p := ns.ptr.v.(*Value)
			if p == nil {
				return ex.codecError("cannot encode nil")
			}
			f := &flatEnc{ex: ex}
			f.enc(deref(ns.ptr.t), *p)
			buf := make([]Value, len(f.out))
			for i, t := range f.out {
				buf[i] = t
			}
			res := ex.invoke(fr, args[1], "Write", buf).(Tuple)
			return res[1]
		}
		decode := func(allowTrailing bool) func(ex *Exec, fr *Frame, args []Value) Value {
			return func(ex *Exec, fr *Frame, args []Value) Value {
				bi := args[0].(Iface)
				no, ok := bi.v.(*nativeObj)
				if !ok {
					if ex.p.stubSet["real-ipld"] {
						return fallThrough{}
					}
					ex.unsupported("model codec: Decode into non-bindnode builder %v", bi.t)
				}
				bs, ok := no.state.(*builderState)
				if !ok {
					ex.unsupported("model codec: Decode into %s", no.kind)
				}
				return doDecode(ex, fr, bs, args[1], allowTrailing)
			}
		}
		// (DecodeOptions).Decode: field 2 of the options struct is DontParseBeyondEnd
		optDecode := func(ex *Exec, fr *Frame, args []Value) Value {
			opts := args[0].(Struct)
			dontParse := opts[len(opts)-1].(*Term)
			bi := args[1].(Iface)
			no, ok := bi.v.(*nativeObj)
			if !ok {
				if ex.p.stubSet["real-ipld"] {
					return fallThrough{}
				}
				ex.unsupported("model codec: Decode into non-bindnode builder %v", bi.t)
			}
			bs, ok := no.state.(*builderState)
			if !ok {
				ex.unsupported("model codec: Decode into %s", no.kind)
			}
			return doDecode(ex, fr, bs, args[2], ex.branch(dontParse, "DontParseBeyondEnd"))
		}
		p.reg("("+ipld+"/codec/dagcbor.DecodeOptions).Decode", optDecode)
		p.reg("("+ipld+"/codec/dagjson.DecodeOptions).Decode", optDecode)
		// LinkSystem.Load: storage read (+ hash verification unless trusted); the
		// decoded node is opaque (its content is not interpreted)
		p.reg("(*"+ipld+"/linking.LinkSystem).Load", func(ex *Exec, fr *Frame, args []Value) Value {
			lsT := ex.p.namedType(ipld+"/linking", "LinkSystem")
			ls := (*ex.nonNil(fr, args[0])).(Struct)
			ro := ex.getField(ls, lsT, "StorageReadOpener")
			if isNil, _ := isNilValue(ro); isNil {
				return Tuple{Iface{}, ex.newErrorString("no storage configured for reading")}
			}
			res := ex.call(fr, fr.callPos, ro, []Value{args[1], args[2]}).(Tuple)
			if e := res[1].(Iface); e.t != nil {
				return Tuple{Iface{}, e}
			}
			data, _ := ex.readAll(fr, res[0])
			trusted := ex.getField(ls, lsT, "TrustedStorage").(*Term)
			lnk := args[2].(Iface)
			if !ex.branch(trusted, "trusted-storage") {
				if !ex.linkMatches(fr, lnk, data) {
					return Tuple{Iface{}, ex.newErrorString("hash mismatch")}
				}
			}
			n := &nativeObj{kind: "ipld.Node(opaque)", state: &rawNode{data: data, lnk: lnk}, methods: map[string]func(ex *Exec, args []Value) Value{}}
			return Tuple{nativeIface(n), Iface{}}
		})
		p.reg(ipld+"/codec/dagcbor.Encode", encode)
		p.reg(ipld+"/codec/dagjson.Encode", encode)
		p.reg(ipld+"/codec/dagcbor.Decode", decode(false))
		p.reg(ipld+"/codec/dagjson.Decode", decode(false))
	})
}

type rawNode struct {
	data []*Term
	lnk  Iface
}

// linkMatches: does data hash to the CID in lnk (per the CID's own prefix)?
func (ex *Exec) linkMatches(fr *Frame, lnk Iface, data []*Term) bool {
	ls, ok := lnk.v.(Struct)
	if !ok {
		ex.unsupported("link of dynamic type %v", lnk.t)
	}
	c := ls[0]
	cidT := ex.p.namedType("github.com/ipfs/go-cid", "Cid")
	prefixFn := ex.findMethod(cidT, "Prefix")
	pfx := ex.callSSA(fr, fr.callPos, prefixFn, []Value{c}, nil)
	pfxT := ex.p.namedType("github.com/ipfs/go-cid", "Prefix")
	sumFn := ex.findMethod(pfxT, "Sum")
	res := ex.callSSA(fr, fr.callPos, sumFn, []Value{pfx, termsToValues(data)}, nil).(Tuple)
	if e := res[1].(Iface); e.t != nil {
		return false
	}
	return ex.branch(ex.equals(cidT, res[0], c), "link-hash-matches")
}

// fallThrough is returned by a model that declines a call: the real function
// body is interpreted instead.
type fallThrough struct{}
