package main

// gosym: bounded symbolic execution of Go SSA with an SMT back end.
//
//   gosym -repo /repo -pkg <import path> -harness <dir> -funcs A,B -tier quick -out result.json

import (
	"encoding/json"
	"flag"
	"fmt"
	"os"
	"path/filepath"
	"runtime"
	"sort"
	"strings"
	"time"
)

type harnessOut struct {
	Harness       string                 `json:"harness"`
	Paths         int                    `json:"paths"`
	DistinctPaths int                    `json:"paths_with_obligations"`
	PathEnds      map[string]int         `json:"path_ends"`
	Obligations   int                    `json:"obligations"`
	ObUnsat       int                    `json:"obligations_unsat"`
	ObSat         int                    `json:"obligations_sat"`
	ObUnknown     int                    `json:"obligations_unknown"`
	ObConcrete    int                    `json:"obligations_concrete_true"`
	ObLabels      map[string]int         `json:"obligation_labels"`
	Violations    []Violation            `json:"violations"`
	Reached       []string               `json:"reached"`
	ReachModels   map[string][]NondetRec `json:"reach_witnesses"`
	Funcs         []fnInfo               `json:"repo_functions_encoded"`
	LibFuncs      int                    `json:"library_functions_encoded"`
	Stubs         map[string]int         `json:"stubs_used"`
	Inconclusive  map[string]int         `json:"inconclusive"`
	Unsupported   map[string]int         `json:"unsupported"`
	InitFails     map[string]int         `json:"init_failures"`
	Cuts          map[string]int         `json:"cuts"`
	Steps         int64                  `json:"instructions_interpreted"`
	Decisions     int64                  `json:"decisions"`
	SolverQueries int                    `json:"solver_queries"`
	SolverSat     int                    `json:"solver_sat"`
	SolverUnsat   int                    `json:"solver_unsat"`
	SolverUnknown int                    `json:"solver_unknown"`
	SolverErrors  int                    `json:"solver_errors"`
	SolverSecs    float64                `json:"solver_seconds"`
	WallSecs      float64                `json:"wall_seconds"`
	Truncated     bool                   `json:"truncated"`
	States        int64                  `json:"states"`
	Transitions   int64                  `json:"transitions"`
	Samples       []map[string]any       `json:"samples"`
	Observes      map[string]int         `json:"observes,omitempty"`
	Bounds        map[string]any         `json:"bounds"`
	Twin          bool                   `json:"twin"`
	Error         string                 `json:"error,omitempty"`
}

var repoRoot = "/repo/"

type runOut struct {
	Pkg       string       `json:"pkg"`
	Tier      string       `json:"tier"`
	LoadSecs  float64      `json:"load_seconds"`
	Harnesses []harnessOut `json:"harnesses"`
	Error     string       `json:"error,omitempty"`
}

func main() {
	repo := flag.String("repo", "/repo", "repository root")
	pkg := flag.String("pkg", "", "import path of the package under test")
	hdir := flag.String("harness", "", "directory with harness .go files (overlaid into the package dir)")
	funcs := flag.String("funcs", "", "comma-separated harness functions")
	tier := flag.String("tier", "quick", "quick|thorough")
	out := flag.String("out", "", "output JSON")
	workers := flag.Int("workers", runtime.NumCPU(), "parallel workers")
	cfgFile := flag.String("cfg", "", "JSON file: function name -> HarnessCfg overrides (optionally per tier)")
	timeout := flag.Duration("timeout", 20*time.Minute, "deadline per harness")
	twin := flag.Bool("twin", false, "vacuity twin: all assertions replaced by false")
	replay := flag.String("replay", "", "comma-separated decision vector to replay (single function)")
	flag.Parse()
	repoRoot = strings.TrimSuffix(*repo, "/") + "/"

	ro := runOut{Pkg: *pkg, Tier: *tier}
	fail := func(err error) {
		ro.Error = err.Error()
		writeOut(*out, &ro)
		fmt.Fprintln(os.Stderr, "gosym:", err)
		os.Exit(3)
	}
	// overlay: harness files become <pkgdir>/zz_verif_<name>.go
	rel := strings.TrimPrefix(*pkg, "github.com/ipni/go-libipni")
	pkgDir := filepath.Join(*repo, rel)
	overlay := map[string]string{}
	if *hdir != "" {
		ents, err := os.ReadDir(*hdir)
		if err != nil {
			fail(err)
		}
		for _, e := range ents {
			n := e.Name()
			if !strings.HasSuffix(n, ".go") || strings.HasSuffix(n, "_test.go") || strings.HasPrefix(n, "native_") {
				continue
			}
			overlay[filepath.Join(pkgDir, "zz_verif_"+n)] = filepath.Join(*hdir, n)
		}
	}
	t0 := time.Now()
	p, err := loadProgram(*repo, *pkg, overlay)
	if err != nil {
		fail(err)
	}
	ro.LoadSecs = time.Since(t0).Seconds()

	cfgs := map[string]map[string]json.RawMessage{}
	if *cfgFile != "" {
		b, err := os.ReadFile(*cfgFile)
		if err == nil {
			if err := json.Unmarshal(b, &cfgs); err != nil {
				fail(fmt.Errorf("cfg: %v", err))
			}
		}
	}
	tierN := 0
	if *tier == "thorough" {
		tierN = 1
	}
	for _, fn := range strings.Split(*funcs, ",") {
		fn = strings.TrimSpace(fn)
		if fn == "" {
			continue
		}
		cfg := &HarnessCfg{Func: fn, Tier: tierN, Twin: *twin}
		if c, ok := cfgs[fn]; ok {
			if raw, ok := c["all"]; ok {
				json.Unmarshal(raw, cfg)
			}
			if raw, ok := c[*tier]; ok {
				json.Unmarshal(raw, cfg)
			}
		}
		cfg.Func = fn
		cfg.Tier = tierN
		cfg.Twin = *twin
		cfg.defaults()
		if *replay != "" {
			for _, s := range strings.Split(*replay, ",") {
				var n int
				fmt.Sscan(s, &n)
				cfg.Replay = append(cfg.Replay, n)
			}
			if cfg.Replay == nil {
				cfg.Replay = []int{}
			}
		}
		p.stubSet = map[string]bool{}
		for _, s := range cfg.Stubs {
			p.stubSet[s] = true
		}
		rr, err := explore(p, cfg, *workers, time.Now().Add(*timeout))
		ho := harnessOut{Harness: fn, Twin: *twin}
		if err != nil {
			ho.Error = err.Error()
			ro.Harnesses = append(ro.Harnesses, ho)
			continue
		}
		ho.Paths = rr.Paths
		ho.DistinctPaths = rr.DistinctPaths
		ho.PathEnds = rr.PathEnds
		ho.Obligations = rr.Obligations
		ho.ObUnsat, ho.ObSat, ho.ObUnknown, ho.ObConcrete = rr.ObUnsat, rr.ObSat, rr.ObUnknown, rr.ObConcrete
		ho.ObLabels = rr.ObLabels
		ho.Violations = rr.Violations
		for l := range rr.Reached {
			ho.Reached = append(ho.Reached, l)
		}
		sort.Strings(ho.Reached)
		ho.ReachModels = rr.ReachModels
		ho.Funcs = p.describeFuncs(rr.Funcs, true)
		ho.LibFuncs = len(rr.Funcs) - len(ho.Funcs)
		ho.Stubs = rr.Stubs
		ho.Inconclusive = rr.Inconclusive
		ho.Unsupported = rr.Unsupported
		ho.InitFails = rr.InitFails
		ho.Cuts = rr.Cuts
		ho.Steps = rr.Steps
		ho.Decisions = rr.Decisions
		ho.SolverQueries, ho.SolverSat, ho.SolverUnsat, ho.SolverUnknown, ho.SolverErrors = rr.SolverQ, rr.SolverSat, rr.SolverUnsat, rr.SolverUnk, rr.SolverErr
		ho.SolverSecs = rr.SolverTime.Seconds()
		ho.WallSecs = rr.Wall.Seconds()
		ho.Truncated = rr.Truncated
		ho.States, ho.Transitions = rr.States, rr.Transitions
		ho.Samples = rr.Samples
		ho.Observes = rr.Observes
		ho.Bounds = map[string]any{"max_symbolic_decisions_per_path": cfg.MaxDecisions, "max_instructions_per_path": cfg.MaxSteps,
			"max_call_depth": cfg.MaxDepth, "max_values_per_concretization": cfg.MaxConcretize, "max_paths": cfg.MaxPaths,
			"preemption_bound": cfg.Preemptions, "strict_sched_bound_counts_every_non_default_choice": cfg.StrictSchedBound, "solver_timeout_ms": cfg.SolverTimeoutMS, "map_order_fork": cfg.MapOrderFork}
		ro.Harnesses = append(ro.Harnesses, ho)
		fmt.Fprintf(os.Stderr, "gosym: %s: %d paths %v, %d obligations (%d unsat, %d sat, %d unknown, %d concrete), %d violations, %.1fs\n",
			fn, rr.Paths, rr.PathEnds, rr.Obligations, rr.ObUnsat, rr.ObSat, rr.ObUnknown, rr.ObConcrete, len(rr.Violations), rr.Wall.Seconds())
	}
	writeOut(*out, &ro)
}

func writeOut(path string, ro *runOut) {
	b, _ := json.MarshalIndent(ro, "", " ")
	if path == "" {
		os.Stdout.Write(b)
		return
	}
	os.WriteFile(path, b, 0o644)
}
