package main

// Loading /repo's current working tree (plus harness overlay) into SSA.

import (
	"crypto/sha256"
	"encoding/hex"
	"fmt"
	"go/token"
	"go/types"
	"os"
	"path/filepath"
	"sort"
	"strings"
	"sync"

	"golang.org/x/tools/go/packages"
	"golang.org/x/tools/go/ssa"
	"golang.org/x/tools/go/ssa/ssautil"
)

type intrinsic struct {
	name string
	fn   func(ex *Exec, fr *Frame, args []Value) Value
	// mayDecline: the model may return fallThrough{} to have the real body interpreted
	mayDecline bool
}

type Program struct {
	prog     *ssa.Program
	pkgs     []*packages.Package
	mainPkg  *ssa.Package
	fset     *token.FileSet
	intr     map[string]*intrinsic // by fn.String()
	intrMu   sync.Mutex
	intrMemo map[*ssa.Function]*intrinsic
	rtErr    types.Type
	typeMemo sync.Map
	loadSecs float64
	noInit   map[string]bool
	stubSet  map[string]bool // optional stub groups enabled by the harness
}

type HarnessCfg struct {
	Func             string   `json:"func"`
	MaxDecisions     int      `json:"max_decisions"`
	MaxSteps         int      `json:"max_steps"`
	MaxDepth         int      `json:"max_depth"`
	MaxConcretize    int      `json:"max_concretize"`
	DefaultAllocCap  int64    `json:"default_alloc_cap"`
	HardAllocLimit   int64    `json:"hard_alloc_limit"`
	MapOrderFork     bool     `json:"map_order_fork"`
	MaxPaths         int      `json:"max_paths"`
	Preemptions      int      `json:"preemptions"`
	Stubs            []string `json:"stubs"`
	Races            bool     `json:"races"` // happens-before race detection on the repository's own accesses
	SolverTimeoutMS  int      `json:"solver_timeout_ms"`
	Twin             bool     `json:"twin"` // run with every verif_Assert replaced by false (vacuity twin)
	Replay           []int    `json:"replay,omitempty"`
	NoMerge          bool     `json:"no_merge"`
	YieldOnUnlock    bool     `json:"yield_on_unlock"`
	Tier             int      `json:"tier"`
	MakeEnumLimit    int      `json:"make_enum_limit"`
	StrictSchedBound bool     `json:"strict_sched_bound"`
}

func (c *HarnessCfg) defaults() {
	if c.MaxDecisions == 0 {
		c.MaxDecisions = 400
	}
	if c.MaxSteps == 0 {
		c.MaxSteps = 3_000_000
	}
	if c.MaxDepth == 0 {
		c.MaxDepth = 300
	}
	if c.MaxConcretize == 0 {
		c.MaxConcretize = 64
	}
	if c.DefaultAllocCap == 0 {
		c.DefaultAllocCap = 1 << 16
	}
	if c.HardAllocLimit == 0 {
		c.HardAllocLimit = 1 << 22
	}
	if c.MaxPaths == 0 {
		c.MaxPaths = 200000
	}
	if c.MakeEnumLimit == 0 {
		c.MakeEnumLimit = 12
	}
	if c.SolverTimeoutMS == 0 {
		c.SolverTimeoutMS = 10000
	}
}

func loadProgram(repo string, pkgPath string, overlayFiles map[string]string) (*Program, error) {
	overlay := map[string][]byte{}
	for virt, real := range overlayFiles {
		b, err := os.ReadFile(real)
		if err != nil {
			return nil, err
		}
		overlay[virt] = b
	}
	env := []string{}
	for _, e := range os.Environ() {
		if strings.HasPrefix(e, "GOFLAGS=") || strings.HasPrefix(e, "GOPROXY=") || strings.HasPrefix(e, "GOSUMDB=") || strings.HasPrefix(e, "GOTOOLCHAIN=") {
			continue
		}
		env = append(env, e)
	}
	env = append(env, "GOFLAGS=-mod=mod", "GOPROXY=off")
	cfg := &packages.Config{
		Mode:    packages.LoadAllSyntax,
		Dir:     repo,
		Overlay: overlay,
		Env:     env,
		Tests:   false,
	}
	pkgs, err := packages.Load(cfg, pkgPath)
	if err != nil {
		return nil, err
	}
	nerr := 0
	packages.Visit(pkgs, nil, func(p *packages.Package) {
		for _, e := range p.Errors {
			if strings.HasPrefix(p.PkgPath, "github.com/ipni/go-libipni") {
				fmt.Fprintf(os.Stderr, "load error: %s: %v\n", p.PkgPath, e)
				nerr++
			}
		}
	})
	if nerr > 0 {
		return nil, fmt.Errorf("%d load errors in repo packages", nerr)
	}
	prog, ssaPkgs := ssautil.AllPackages(pkgs, ssa.InstantiateGenerics|ssa.SanityCheckFunctions&0)
	prog.Build()
	p := &Program{prog: prog, pkgs: pkgs, fset: prog.Fset, intr: map[string]*intrinsic{}, intrMemo: map[*ssa.Function]*intrinsic{}, noInit: map[string]bool{}, stubSet: map[string]bool{}}
	for i, sp := range ssaPkgs {
		if sp != nil && pkgs[i].PkgPath == pkgPath {
			p.mainPkg = sp
		}
	}
	if p.mainPkg == nil {
		return nil, fmt.Errorf("package %s not built", pkgPath)
	}
	if rt := prog.ImportedPackage("runtime"); rt != nil {
		p.rtErr = rt.Type("errorString").Object().Type()
	}
	registerIntrinsics(p)
	return p, nil
}

func (p *Program) runtimeErrorType() types.Type { return p.rtErr }

func (p *Program) skipInit(path string) bool {
	return p.noInit[path]
}

func (p *Program) intrinsicFor(fn *ssa.Function) *intrinsic {
	p.intrMu.Lock()
	defer p.intrMu.Unlock()
	if in, ok := p.intrMemo[fn]; ok {
		return in
	}
	var in *intrinsic
	name := fn.String()
	if fn.Origin() != nil {
		// generic instance: also try the origin name
		if i2, ok := p.intr[fn.Origin().String()]; ok {
			in = i2
		}
	}
	if i2, ok := p.intr[name]; ok {
		in = i2
	}
	if in == nil && strings.HasPrefix(fn.Name(), "verif_") {
		if i2, ok := p.intr[fn.Name()]; ok {
			in = i2
		}
	}
	if in == nil && fn.Pkg != nil {
		if i2, ok := p.intr[fn.Pkg.Pkg.Path()+".*"]; ok {
			in = i2
		}
	}
	p.intrMemo[fn] = in
	return in
}

func (p *Program) reg(name string, f func(ex *Exec, fr *Frame, args []Value) Value) {
	p.intr[name] = &intrinsic{name: name, fn: f,
		mayDecline: strings.Contains(name, "/codec/dagjson.") || strings.Contains(name, "/codec/dagcbor.") || strings.HasSuffix(name, "go-cid.Decode") || strings.HasSuffix(name, ".EqualFold")}
}

// namedType finds a named type pkgpath.Name in the loaded program.
func (p *Program) namedType(pkgPath, name string) types.Type {
	key := pkgPath + "." + name
	if t, ok := p.typeMemo.Load(key); ok {
		return t.(types.Type)
	}
	sp := p.prog.ImportedPackage(pkgPath)
	if sp == nil {
		return nil
	}
	m := sp.Type(name)
	if m == nil {
		return nil
	}
	t := m.Object().Type()
	p.typeMemo.Store(key, t)
	return t
}

func (p *Program) funcByName(pkgPath, name string) *ssa.Function {
	sp := p.prog.ImportedPackage(pkgPath)
	if sp == nil {
		return nil
	}
	return sp.Func(name)
}

// fnInfo describes an executed function for the evidence file.
type fnInfo struct {
	Name string `json:"name"`
	Pos  string `json:"pos"`
	Hash string `json:"ssa_sha256"`
}

func (p *Program) describeFuncs(set map[*ssa.Function]bool, repoOnly bool) []fnInfo {
	var out []fnInfo
	for fn := range set {
		pos := p.fset.Position(fn.Pos())
		inRepo := strings.HasPrefix(pos.Filename, repoRoot) && !strings.Contains(filepath.Base(pos.Filename), "zz_verif")
		if repoOnly && !inRepo {
			continue
		}
		var sb strings.Builder
		fn.WriteTo(&sb)
		h := sha256.Sum256([]byte(sb.String()))
		out = append(out, fnInfo{Name: fn.String(), Pos: fmt.Sprintf("%s:%d", strings.TrimPrefix(pos.Filename, repoRoot), pos.Line), Hash: hex.EncodeToString(h[:8])})
	}
	sort.Slice(out, func(i, j int) bool { return out[i].Name < out[j].Name })
	return out
}
