package main

// Incremental SMT solver session over a pipe (z3 -in, or cvc5 --incremental).

import (
	"bufio"
	"fmt"
	"io"
	"os"
	"os/exec"
	"strconv"
	"strings"
	"time"
)

type Solver struct {
	lines    chan string
	dead     bool
	cmd      *exec.Cmd
	in       io.WriteCloser
	out      *bufio.Reader
	pr       *smtPrinter
	vars     []*Term // declared variables in this session (for get-value)
	varSeen  map[string]bool
	asserted map[string]bool
	queries  int
	satN     int
	unsatN   int
	unkN     int
	errN     int
	time     time.Duration
	timeout  int // ms
	log      io.Writer
	kind     string
}

func newSolver(kind string, timeoutMS int) (*Solver, error) {
	var cmd *exec.Cmd
	switch kind {
	case "z3", "":
		kind = "z3"
		cmd = exec.Command("z3", "-in", "-smt2", fmt.Sprintf("-t:%d", timeoutMS))
	case "z3-new":
		cmd = exec.Command("z3-new", "-in", "-smt2")
	case "cvc5":
		cmd = exec.Command("cvc5", "--incremental", "--lang=smt2", "--produce-models", fmt.Sprintf("--tlimit-per=%d", timeoutMS))
	default:
		return nil, fmt.Errorf("unknown solver %q", kind)
	}
	in, err := cmd.StdinPipe()
	if err != nil {
		return nil, err
	}
	outp, err := cmd.StdoutPipe()
	if err != nil {
		return nil, err
	}
	cmd.Stderr = nil
	if err := cmd.Start(); err != nil {
		return nil, err
	}
	s := &Solver{cmd: cmd, in: in, out: bufio.NewReaderSize(outp, 1<<16), timeout: timeoutMS, kind: kind}
	s.lines = make(chan string, 256)
	go func(rd *bufio.Reader, ch chan string) {
		for {
			line, err := rd.ReadString('\n')
			if err != nil {
				ch <- "(error \"solver died: " + err.Error() + "\")"
				close(ch)
				return
			}
			ch <- line
		}
	}(s.out, s.lines)
	s.resetSession()
	return s, nil
}

func (s *Solver) send(str string) {
	if s.log != nil {
		io.WriteString(s.log, str)
	}
	io.WriteString(s.in, str)
}

func (s *Solver) resetSession() {
	s.pr = newSMTPrinter()
	s.vars = nil
	s.varSeen = map[string]bool{}
	s.asserted = map[string]bool{}
	if s.kind == "cvc5" {
		s.send("(reset)\n(set-logic ALL)\n(set-option :produce-models true)\n")
	} else {
		s.send(fmt.Sprintf("(reset)\n(set-option :timeout %d)\n(set-option :produce-models true)\n", s.timeout))
	}
}

func (s *Solver) Close() {
	s.in.Close()
	done := make(chan struct{})
	go func() { s.cmd.Wait(); close(done) }()
	select {
	case <-done:
	case <-time.After(2 * time.Second):
		s.cmd.Process.Kill()
	}
}

func (s *Solver) noteVars(t *Term, seen map[*Term]bool) {
	if t.op == OpConst || seen[t] {
		return
	}
	seen[t] = true
	if t.op == OpVar {
		if !s.varSeen[t.name] {
			s.varSeen[t.name] = true
			s.vars = append(s.vars, t)
		}
		return
	}
	for _, a := range t.args {
		s.noteVars(a, seen)
	}
}

// Assert adds a permanent (for this session) constraint.
func (s *Solver) Assert(t *Term) {
	s.noteVars(t, map[*Term]bool{})
	r := s.pr.ref(t)
	s.send(s.pr.flush())
	if s.asserted[r] {
		return
	}
	s.asserted[r] = true
	s.send("(assert " + r + ")\n")
}

type SatResult int

const (
	Unsat SatResult = iota
	Sat
	Unknown
)

func (r SatResult) String() string {
	return [...]string{"unsat", "sat", "unknown"}[r]
}

func (s *Solver) readRaw() (string, bool) {
	if s.dead {
		return "(error \"solver died: killed\")", false
	}
	select {
	case line, ok := <-s.lines:
		if !ok {
			s.dead = true
			return "(error \"solver died: closed\")", false
		}
		return line, true
	case <-time.After(time.Duration(s.timeout)*time.Millisecond + 5*time.Second):
		// the solver ignored its own timeout: kill it
		s.dead = true
		s.cmd.Process.Kill()
		return "(error \"solver died: timeout, killed\")", false
	}
}

func (s *Solver) readLine() string {
	line, _ := s.readRaw()
	return strings.TrimSpace(line)
}

// Check decides satisfiability of the session's assertions plus extra (may
// be nil). When sat and wantModel, the model for all declared vars is returned.
func (s *Solver) Check(extra *Term, wantModel bool) (SatResult, map[string]uint64) {
	t0 := time.Now()
	defer func() { s.time += time.Since(t0) }()
	s.queries++
	if extra != nil {
		s.noteVars(extra, map[*Term]bool{})
		r := s.pr.ref(extra)
		s.send(s.pr.flush())
		s.send("(push 1)\n(assert " + r + ")\n")
	}
	s.send("(check-sat)\n(echo \"eoq\")\n")
	res := Unknown
	sawErr := false
	verdict := ""
	for {
		line := s.readLine()
		if strings.Contains(line, "solver died") {
			sawErr = true
			break
		}
		if strings.Contains(line, "eoq") {
			break
		}
		if strings.HasPrefix(line, "(error") {
			sawErr = true
			s.errN++
			if os.Getenv("GOSYM_DEBUG") != "" || s.errN <= 2 {
				fmt.Fprintf(os.Stderr, "gosym: solver error line: %s\n", line)
			}
			continue
		}
		if line == "sat" || line == "unsat" || line == "unknown" {
			verdict = line
		}
	}
	if sawErr {
		verdict = "unknown"
	}
	switch verdict {
	case "sat":
		res = Sat
		s.satN++
	case "unsat":
		res = Unsat
		s.unsatN++
	default:
		res = Unknown
		s.unkN++
	}
	var model map[string]uint64
	if res == Sat && wantModel && len(s.vars) > 0 {
		model = s.getModel()
	}
	if extra != nil {
		s.send("(pop 1)\n")
	}
	return res, model
}

// EvalIn returns the value of t in some model of the current assertions
// (works for terms containing uninterpreted functions).
func (s *Solver) EvalIn(t *Term) (uint64, bool) {
	s.noteVars(t, map[*Term]bool{})
	r := s.pr.ref(t)
	s.send(s.pr.flush())
	s.queries++
	s.send("(check-sat)\n(echo \"eoq\")\n")
	verdict := ""
	for {
		line := s.readLine()
		if strings.Contains(line, "solver died") {
			return 0, false
		}
		if strings.Contains(line, "eoq") {
			break
		}
		if line == "sat" || line == "unsat" || line == "unknown" {
			verdict = line
		}
	}
	if verdict != "sat" {
		return 0, false
	}
	s.satN++
	s.send("(get-value (" + r + "))\n")
	depth := 0
	var text strings.Builder
	started := false
	for {
		line, ok := s.readRaw()
		if !ok {
			return 0, false
		}
		text.WriteString(line)
		for _, c := range line {
			if c == '(' {
				depth++
				started = true
			} else if c == ')' {
				depth--
			}
		}
		if started && depth <= 0 {
			break
		}
	}
	toks := tokenize(text.String())
	// ((expr value)) : value is the last token(s) before the closing parens
	for i := len(toks) - 1; i >= 0; i-- {
		tk := toks[i]
		switch {
		case tk == ")" || tk == "(":
			continue
		case tk == "true":
			return 1, true
		case tk == "false":
			return 0, true
		case strings.HasPrefix(tk, "#x"):
			v, err := strconv.ParseUint(tk[2:], 16, 64)
			return v, err == nil
		case strings.HasPrefix(tk, "#b"):
			v, err := strconv.ParseUint(tk[2:], 2, 64)
			return v, err == nil
		default:
			// (_ bvN W): N is toks[i-1]
			if i >= 2 && strings.HasPrefix(toks[i-1], "bv") {
				v, err := strconv.ParseUint(toks[i-1][2:], 10, 64)
				return v, err == nil
			}
			return 0, false
		}
	}
	return 0, false
}

func (s *Solver) getModel() map[string]uint64 {
	var b strings.Builder
	b.WriteString("(get-value (")
	for _, v := range s.vars {
		b.WriteString(v.name)
		b.WriteString(" ")
	}
	b.WriteString("))\n")
	s.send(b.String())
	// read a balanced s-expression
	depth := 0
	var text strings.Builder
	started := false
	for {
		line, ok := s.readRaw()
		if !ok {
			return nil
		}
		text.WriteString(line)
		for _, c := range line {
			if c == '(' {
				depth++
				started = true
			} else if c == ')' {
				depth--
			}
		}
		if started && depth <= 0 {
			break
		}
	}
	return parseModel(text.String())
}

// parseModel parses "((x #x01) (y true) (z (_ bv3 5)))".
func parseModel(s string) map[string]uint64 {
	m := map[string]uint64{}
	toks := tokenize(s)
	// pattern: ( name value ) pairs within outer parens
	i := 0
	if len(toks) == 0 || toks[0] != "(" {
		return m
	}
	i = 1
	for i < len(toks) && toks[i] == "(" {
		name := toks[i+1]
		j := i + 2
		var v uint64
		if toks[j] == "(" { // (_ bvN W)
			if toks[j+1] == "_" && strings.HasPrefix(toks[j+2], "bv") {
				v, _ = strconv.ParseUint(toks[j+2][2:], 10, 64)
			}
			for toks[j] != ")" {
				j++
			}
			j++
		} else {
			tk := toks[j]
			switch {
			case tk == "true":
				v = 1
			case tk == "false":
				v = 0
			case strings.HasPrefix(tk, "#x"):
				v, _ = strconv.ParseUint(tk[2:], 16, 64)
			case strings.HasPrefix(tk, "#b"):
				v, _ = strconv.ParseUint(tk[2:], 2, 64)
			}
			j++
		}
		m[name] = v
		// expect ")"
		for j < len(toks) && toks[j] != ")" {
			j++
		}
		i = j + 1
	}
	return m
}

func tokenize(s string) []string {
	var toks []string
	cur := strings.Builder{}
	flush := func() {
		if cur.Len() > 0 {
			toks = append(toks, cur.String())
			cur.Reset()
		}
	}
	inBar := false
	for _, c := range s {
		if inBar {
			cur.WriteRune(c)
			if c == '|' {
				inBar = false
			}
			continue
		}
		switch c {
		case '(', ')':
			flush()
			toks = append(toks, string(c))
		case ' ', '\n', '\t', '\r':
			flush()
		case '|':
			cur.WriteRune(c)
			inBar = true
		default:
			cur.WriteRune(c)
		}
	}
	flush()
	return toks
}
