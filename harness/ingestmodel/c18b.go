package model

import (
	"bytes"

	"github.com/libp2p/go-libp2p/core/peer"
)

// C18: constructor output is accepted and returns the fields it was built from
// also when several requests are being made at the same time (shared
// serialisation state — pools, package-level buffers — must not leak between
// them). Two goroutines build and read back a request each; every interleaving
// at the scheduling points within the bound is explored.
func VerifC18_ConcurrentMake() {
	privA, idA := c18key()
	privB, idB := c18key()
	verif_Assume(idA != idB)
	type res struct {
		okMake, okRead bool
		id             peer.ID
		mh, ctx        []byte
	}
	run := func(id peer.ID, mh, ctx []byte, out chan res) {
		priv := privA
		if id == idB {
			priv = privB
		}
		data, err := MakeIngestRequest(id, priv, mh, ctx, nil, []string{"/ip4/1.2.3.4/tcp/5"})
		if err != nil {
			out <- res{}
			return
		}
		req, rerr := ReadIngestRequest(data)
		if rerr != nil || req == nil {
			out <- res{okMake: true}
			return
		}
		out <- res{true, true, req.ProviderID, req.Multihash, req.ContextID}
	}
	mhA, mhB := []byte{0x12, 0x01}, []byte{0x12, 0x02}
	ctxA, ctxB := []byte("ctx-A"), []byte("ctx-B")
	ca, cb := make(chan res, 1), make(chan res, 1)
	go run(idA, mhA, ctxA, ca)
	go run(idB, mhB, ctxB, cb)
	ra, rb := <-ca, <-cb
	verif_Reach("both done")
	verif_Assert(ra.okMake && rb.okMake, "constructing an ingest request succeeds")
	verif_Assert(ra.okRead && rb.okRead, "an ingest request made by the library is accepted, whatever else is being made concurrently")
	if ra.okRead {
		verif_Assert(ra.id == idA && bytes.Equal(ra.mh, mhA) && bytes.Equal(ra.ctx, ctxA), "a request returns the fields it was built from, not those of a concurrent request")
	}
	if rb.okRead {
		verif_Assert(rb.id == idB && bytes.Equal(rb.mh, mhB) && bytes.Equal(rb.ctx, ctxB), "a request returns the fields it was built from, not those of a concurrent request")
	}
}
