package model

import (
	"bytes"
	"encoding/json"

	"github.com/libp2p/go-libp2p/core/peer"
	"github.com/libp2p/go-libp2p/core/record"
)

// C18: constructor output is accepted and returns the fields it was built from
// also when several requests are being made at the same time (shared
// serialisation state — pools, package-level buffers — must not leak between
// them). Two goroutines build and read back a request each; every interleaving
// at the scheduling points within the bound is explored.
func VerifC18_ConcurrentMake() {
	privA, idA := c18key()
	privB, idB := c18key()
	verif_Assume(idA != idB)
	type res struct {
		okMake, okRead bool
		id             peer.ID
		mh, ctx        []byte
	}
	run := func(id peer.ID, mh, ctx []byte, out chan res) {
		priv := privA
		if id == idB {
			priv = privB
		}
		data, err := MakeIngestRequest(id, priv, mh, ctx, nil, []string{"/ip4/1.2.3.4/tcp/5"})
		if err != nil {
			out <- res{}
			return
		}
		req, rerr := ReadIngestRequest(data)
		if rerr != nil || req == nil {
			out <- res{okMake: true}
			return
		}
		out <- res{true, true, req.ProviderID, req.Multihash, req.ContextID}
	}
	mhA, mhB := []byte{0x12, 0x01}, []byte{0x12, 0x02}
	ctxA, ctxB := []byte("ctx-A"), []byte("ctx-B")
	ca, cb := make(chan res, 1), make(chan res, 1)
	go run(idA, mhA, ctxA, ca)
	go run(idB, mhB, ctxB, cb)
	ra, rb := <-ca, <-cb
	verif_Reach("both done")
	verif_Assert(ra.okMake && rb.okMake, "constructing an ingest request succeeds")
	verif_Assert(ra.okRead && rb.okRead, "an ingest request made by the library is accepted, whatever else is being made concurrently")
	if ra.okRead {
		verif_Assert(ra.id == idA && bytes.Equal(ra.mh, mhA) && bytes.Equal(ra.ctx, ctxA), "a request returns the fields it was built from, not those of a concurrent request")
	}
	if rb.okRead {
		verif_Assert(rb.id == idB && bytes.Equal(rb.mh, mhB) && bytes.Equal(rb.ctx, ctxB), "a request returns the fields it was built from, not those of a concurrent request")
	}
}

// c18foreign is an ingest request sealed by another implementation: same
// payload type and serialisation, its own idea of the envelope domain.
type c18foreign struct {
	IngestRequest
	domain string
}

func (r *c18foreign) Domain() string { return r.domain }

// (its own serialisation — the same JSON — so that nothing of the library's
// IngestRequest has run in the reading process before ReadIngestRequest)
func (r *c18foreign) MarshalRecord() ([]byte, error) { return json.Marshal(&r.IngestRequest) }

// C18 (expected domain): the ingest envelope domain is the protocol constant
// "indexer-ingest-request-record". A request the named provider sealed for that
// domain is accepted whoever built the envelope; one sealed for any other
// domain string (e.g. the payload-type string) is rejected.
func VerifC18_ProtocolDomain() {
	priv, id := c18key()
	domain := []string{"indexer-ingest-request-record", "indexer-ingest-request", "libp2p-peer-record", ""}[verif_Choose("sealedForDomain", 0, 3)]
	rec := &c18foreign{IngestRequest{ProviderID: id, Multihash: verif_Bytes("multihash", 2), Addrs: []string{"/ip4/1.2.3.4/tcp/5"}}, domain}
	env, err := record.Seal(rec, priv)
	verif_Assume(err == nil)
	data, err := env.Marshal()
	verif_Assume(err == nil)
	req, rerr := ReadIngestRequest(data)
	verif_Reach("read")
	if domain == "indexer-ingest-request-record" {
		verif_Assert(rerr == nil && req != nil && req.ProviderID == id, "a request sealed by the named provider for the ingest protocol domain is accepted")
	} else {
		verif_Assert(rerr != nil && req == nil, "a request sealed for any other domain is rejected")
	}
}
