package model

import (
	"bytes"
	"crypto/rand"

	"github.com/libp2p/go-libp2p/core/crypto"
	"github.com/libp2p/go-libp2p/core/peer"
	"github.com/libp2p/go-libp2p/core/record"
)

func c18key() (crypto.PrivKey, peer.ID) {
	priv, pub, err := crypto.GenerateEd25519Key(rand.Reader)
	verif_Assume(err == nil)
	id, err := peer.IDFromPublicKey(pub)
	verif_Assume(err == nil)
	return priv, id
}

// C18: requests made by the library's constructors are accepted and return
// the fields they were built from.
func VerifC18_MakeRead() {
	priv, id := c18key()
	// one to three addresses in the provider's order of preference (not byte order; the third repeats the first)
	addrs := []string{"/ip4/9.9.9.9/tcp/5", "/ip4/1.2.3.4/tcp/5", "/ip4/9.9.9.9/tcp/5"}[:verif_Choose("addresses", 1, 3)]
	if verif_Choose("requestKind", 0, 1) == 0 {
		mh := verif_Bytes("multihash", 2)
		// (64: the longest context ID an advertisement may carry)
		ctx := verif_Bytes("contextID", []int{0, 1, 2, 64}[verif_Choose("ctxLen", 0, 3)])
		md := verif_Bytes("metadata", verif_Choose("mdLen", 0, 2))
		data, err := MakeIngestRequest(id, priv, mh, ctx, md, addrs)
		verif_Assert(err == nil, "constructing an ingest request succeeds")
		req, rerr := ReadIngestRequest(data)
		verif_Reach("ingest read")
		verif_Assert(rerr == nil && req != nil, "an ingest request made by the library is accepted")
		if rerr != nil || req == nil {
			return
		}
		verif_Assert(req.ProviderID == id && bytes.Equal(req.Multihash, mh) && bytes.Equal(req.ContextID, ctx) && bytes.Equal(req.Metadata, md) && len(req.Addrs) == len(addrs), "ingest request returns the fields it was built from")
		for i := range addrs {
			if i < len(req.Addrs) {
				verif_Assert(req.Addrs[i] == addrs[i], "ingest request returns its addresses in the order given")
			}
		}
	} else {
		data, err := MakeRegisterRequest(id, priv, addrs)
		verif_Assert(err == nil, "constructing a register request succeeds")
		rec, rerr := ReadRegisterRequest(data)
		verif_Reach("register read")
		verif_Assert(rerr == nil && rec != nil, "a register request made by the library is accepted")
		if rerr != nil || rec == nil {
			return
		}
		verif_Assert(rec.PeerID == id && len(rec.Addrs) == len(addrs), "register request returns the fields it was built from")
		for i := range addrs {
			if i < len(rec.Addrs) {
				verif_Assert(rec.Addrs[i].String() == addrs[i], "register request returns its addresses in the order given")
			}
		}
	}
}

// C18: a request naming provider A but signed by another identity B is rejected.
func VerifC18_WrongSigner() {
	_, idA := c18key()
	privB, idB := c18key()
	verif_Assume(idA != idB)
	if verif_Choose("requestKind", 0, 1) == 0 {
		data, err := MakeIngestRequest(idA, privB, verif_Bytes("multihash", 2), nil, nil, []string{"/ip4/1.2.3.4/tcp/5"})
		verif_Assert(err == nil, "sealing succeeds")
		req, rerr := ReadIngestRequest(data)
		verif_Reach("ingest read")
		verif_Assert(rerr != nil && req == nil, "ingest request signed by another identity is rejected")
	} else {
		data, err := MakeRegisterRequest(idA, privB, []string{"/ip4/1.2.3.4/tcp/5"})
		verif_Assert(err == nil, "sealing succeeds")
		rec, rerr := ReadRegisterRequest(data)
		verif_Reach("register read")
		verif_Assert(rerr != nil && rec == nil, "register request signed by another identity is rejected")
	}
}

// C18: a request sealed for another domain is rejected by each reader.
func VerifC18_WrongDomain() {
	priv, id := c18key()
	if verif_Choose("requestKind", 0, 1) == 0 {
		// a register (peer-record domain) envelope handed to the ingest reader
		data, err := MakeRegisterRequest(id, priv, []string{"/ip4/1.2.3.4/tcp/5"})
		verif_Assert(err == nil, "sealing succeeds")
		req, rerr := ReadIngestRequest(data)
		verif_Reach("ingest read")
		verif_Assert(rerr != nil && req == nil, "envelope sealed for the peer-record domain is not an ingest request")
	} else {
		data, err := MakeIngestRequest(id, priv, verif_Bytes("multihash", 2), nil, nil, nil)
		verif_Assert(err == nil, "sealing succeeds")
		rec, rerr := ReadRegisterRequest(data)
		verif_Reach("register read")
		verif_Assert(rerr != nil && rec == nil, "envelope sealed for the ingest domain is not a register request")
	}
	r := &IngestRequest{}
	verif_Assert(r.Domain() == IngestRequestEnvelopeDomain && r.Domain() != peer.PeerRecordEnvelopeDomain, "ingest record domain is its own")
	verif_Assert(bytes.Equal(r.Codec(), IngestRequestEnvelopePayloadType), "ingest record codec is the declared payload type")
	_ = record.Seal
}

// C18: arbitrary / altered sealed bytes are rejected (ideal signatures: only
// bytes produced by sealing verify) and never panic.
func VerifC18_Tamper() {
	priv, id := c18key()
	// (thorough tier: a request with every field present, so that every part of the
	// sealed record is altered)
	var ctxID, md []byte
	var addrs []string
	if verif_Tier() > 0 {
		ctxID, md, addrs = verif_Bytes("contextID", 1), verif_Bytes("metadata", 1), []string{"/ip4/1.2.3.4/tcp/5"}
	}
	data, err := MakeIngestRequest(id, priv, verif_Bytes("multihash", 1+verif_Tier()), ctxID, md, addrs)
	verif_Assert(err == nil, "sealing succeeds")
	// (counted from the end: the signature is the last field of a sealed envelope,
	// in the real encoding and in the engine's model of it alike, so a position
	// means the same part of the envelope in the symbolic run and in its native replay)
	pos := len(data) - 1 - verif_Choose("alteredByteFromEnd", 0, len(data)-1)
	t := append([]byte{}, data...)
	t[pos] ^= verif_U8("xor")
	verif_Assume(!bytes.Equal(t, data))
	if verif_Bool("genuineRequestReadFirst") {
		// having accepted the genuine request must not make an altered copy acceptable
		g, gerr := ReadIngestRequest(data)
		verif_Assert(gerr == nil && g != nil, "the genuine request is accepted")
	}
	req, rerr := ReadIngestRequest(t)
	verif_Reach("read")
	verif_Assert(rerr != nil && req == nil, "an altered sealed ingest request is rejected")
}

// c18rsa: hashed-ID keys are RSA keys (else ECDSA)
var c18rsa bool

func c18hashedKey() (crypto.PrivKey, peer.ID) {
	// an ECDSA or RSA key: its peer ID is a hash of the key and does not embed it
	var priv crypto.PrivKey
	var pub crypto.PubKey
	var err error
	if c18rsa {
		priv, pub, err = crypto.GenerateRSAKeyPair(2048, rand.Reader)
	} else {
		priv, pub, err = crypto.GenerateECDSAKeyPair(rand.Reader)
	}
	verif_Assume(err == nil)
	id, err := peer.IDFromPublicKey(pub)
	verif_Assume(err == nil)
	return priv, id
}

// C18: the signer check holds for every key type, including keys whose peer ID
// does not embed the public key.
func VerifC18_WrongSignerHashedID() {
	c18rsa = verif_Bool("rsaKeys")
	defer func() { c18rsa = false }()
	privA0, idA := c18hashedKey()
	if verif_Bool("genuineRequestOfTheNamedProviderReadFirst") {
		// what was learnt from one identity's request says nothing about another identity
		g, gerr := MakeIngestRequest(idA, privA0, []byte{0x12, 0x34}, nil, nil, nil)
		verif_Assert(gerr == nil, "sealing succeeds")
		greq, grerr := ReadIngestRequest(g)
		verif_Assert(grerr == nil && greq != nil && greq.ProviderID == idA, "the provider's own request is accepted")
	}
	var privB crypto.PrivKey
	var idB peer.ID
	if verif_Bool("signerAlsoHashed") {
		privB, idB = c18hashedKey()
	} else {
		privB, idB = c18key()
	}
	verif_Assume(idA != idB)
	if verif_Choose("requestKind", 0, 1) == 0 {
		data, err := MakeIngestRequest(idA, privB, verif_Bytes("multihash", 2), nil, nil, nil)
		verif_Assert(err == nil, "sealing succeeds")
		req, rerr := ReadIngestRequest(data)
		verif_Reach("ingest read")
		verif_Assert(rerr != nil && req == nil, "an ingest request naming a provider with a hashed peer ID, signed by another identity, is rejected")
	} else {
		data, err := MakeRegisterRequest(idA, privB, []string{"/ip4/1.2.3.4/tcp/5"})
		verif_Assert(err == nil, "sealing succeeds")
		rec, rerr := ReadRegisterRequest(data)
		verif_Reach("register read")
		verif_Assert(rerr != nil && rec == nil, "a register request naming a provider with a hashed peer ID, signed by another identity, is rejected")
	}
	// and the genuine provider is accepted
	privA, idA2 := c18hashedKey()
	data, err := MakeIngestRequest(idA2, privA, verif_Bytes("multihash2", 2), nil, nil, nil)
	verif_Assert(err == nil, "sealing succeeds")
	req, rerr := ReadIngestRequest(data)
	verif_Assert(rerr == nil && req != nil && req.ProviderID == idA2, "a request signed by the provider itself (hashed peer ID) is accepted")
}

// a record sealed for the peer-record domain but with another payload type
type c18otherRecord struct {
	domain  string
	codec   []byte
	payload []byte
}

func (r *c18otherRecord) Domain() string                 { return r.domain }
func (r *c18otherRecord) Codec() []byte                  { return r.codec }
func (r *c18otherRecord) MarshalRecord() ([]byte, error) { return r.payload, nil }
func (r *c18otherRecord) UnmarshalRecord(b []byte) error { r.payload = b; return nil }

// C18: a validly signed envelope of the right domain but of another payload
// type is not a register / ingest request.
func VerifC18_WrongPayloadType() {
	priv, id := c18key()
	// the payload is exactly what a genuine request of that kind would carry
	if verif_Choose("requestKind", 0, 1) == 0 {
		rec := peer.NewPeerRecord()
		rec.PeerID = id
		payload, err := rec.MarshalRecord()
		verif_Assume(err == nil)
		codec := []byte{[]byte(peer.PeerRecordEnvelopePayloadType)[0], verif_U8("otherTypeByte")}
		verif_Assume(!bytes.Equal(codec, peer.PeerRecordEnvelopePayloadType))
		env, err := record.Seal(&c18otherRecord{domain: peer.PeerRecordEnvelopeDomain, codec: codec, payload: payload}, priv)
		verif_Assume(err == nil)
		data, err := env.Marshal()
		verif_Assume(err == nil)
		got, rerr := ReadRegisterRequest(data)
		verif_Reach("register read")
		verif_Assert(rerr != nil && got == nil, "an envelope of the peer-record domain with another payload type is not a register request")
	} else {
		good, err := MakeIngestRequest(id, priv, []byte{1, 2}, nil, nil, nil)
		verif_Assume(err == nil)
		e0, _, err := record.ConsumeEnvelope(good, IngestRequestEnvelopeDomain)
		verif_Assume(err == nil)
		env, err := record.Seal(&c18otherRecord{domain: IngestRequestEnvelopeDomain, codec: []byte("some-other-type"), payload: e0.RawPayload}, priv)
		verif_Assume(err == nil)
		data, err := env.Marshal()
		verif_Assume(err == nil)
		got, rerr := ReadIngestRequest(data)
		verif_Reach("ingest read")
		verif_Assert(rerr != nil && got == nil, "an envelope of the ingest domain with another payload type is not an ingest request")
	}
}
