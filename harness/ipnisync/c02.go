package ipnisync

import (
	"bytes"
	"context"
	"crypto/sha256"
	"crypto/sha512"
	"io"
	"net/http"
	"strings"

	"github.com/ipfs/go-cid"
	cidlink "github.com/ipld/go-ipld-prime/linking/cid"
	"github.com/libp2p/go-libp2p/core/network"
	"github.com/multiformats/go-multihash"
)

// C02: whatever bytes the network returns for a block request, a block is
// committed / reported only if it hashes to the requested CID.
func VerifC02_FetchBlock() {
	// the requested CID: raw codec, hash function and digest length chosen; the
	// genuine content is the concrete block "ok" so that the CID text is concrete
	good := []byte("ok")
	code := []uint64{multihash.SHA2_256, multihash.SHA2_512, multihash.DBL_SHA2_256, multihash.IDENTITY}[verif_Choose("hashFunction", 0, 3)]
	mhLen := []int{-1, 20, 16}[verif_Choose("digestLength", 0, 2)]
	mh, err := multihash.Sum(good, code, mhLen)
	verif_Assume(err == nil) // (the identity "hash" cannot be truncated)
	c := cid.NewCidV1(cid.Raw, mh)
	key := cidlink.Link{Cid: c}.Binary()

	body := verif_Bytes("body", verif_Choose("bodyLen", 0, 3+3*verif_Tier())) // empty, truncated, extended, altered or another block
	if verif_Bool("bodyIsTheGenuineBlockAfterAPrefix") {
		// the genuine block behind up to three arbitrary bytes (a byte order mark, say)
		body = append(verif_Bytes("prefix", verif_Choose("prefixLen", 1, 3)), good...)
	}
	status := []int{200, 200, 404, 500}[verif_Choose("status", 0, 3)]
	transportErr := verif_Bool("transportError")

	st := &vStore{m: map[string][]byte{}}
	rt := &vRT{fn: func(req *http.Request) (*http.Response, error) {
		if transportErr {
			return nil, context.DeadlineExceeded
		}
		return vResp(status, body), nil
	}}
	lsys := vLsys(st)
	// "trusted storage" means: do not re-hash what is read back from the local
	// store. It says nothing about bytes arriving from the network.
	lsys.TrustedStorage = verif_Bool("trustedStorage")
	s := &Syncer{client: &http.Client{Transport: rt}, rootURL: vURL("http://pub.example/ipni/v1/ad"), sync: &Sync{lsys: lsys}}

	ferr := s.fetchBlock(context.Background(), c)
	verif_Reach("fetched")
	stored, committed := st.m[key]

	// what the received bytes hash to, under the CID's own function and length
	sum, serr := multihash.Sum(body, c.Prefix().MhType, c.Prefix().MhLength)
	matches := serr == nil && bytes.Equal(sum, c.Hash())

	if committed {
		if bytes.Equal(body, good) {
			verif_Reach("committed") // witness with the genuine content (replayable natively)
		}
		verif_Assert(bytes.Equal(stored, body), "the committed bytes are the bytes received")
		verif_Assert(matches, "a committed block hashes to the CID it is stored under")
		verif_Assert(ferr == nil, "a commit implies success")
	}
	if ferr == nil {
		verif_Assert(committed, "success implies the block is in the store")
	}
	if transportErr || status != 200 || !matches {
		verif_Assert(ferr != nil, "a failed or mismatching response fails the fetch")
		verif_Assert(!committed && st.commits == 0, "nothing is committed on failure")
	}
	verif_Assert(len(st.m) == st.commits && st.commits <= 1, "at most the requested block is written")
}

// C02 (the store's side): the local store fails to commit once or twice while
// an honest publisher serves the genuine block. Whatever the fetch then
// returns, every block in the store hashes to the CID it is stored under (in
// particular nothing empty or partial is committed in its place), and once the
// store works again the block is fetched and stored intact.
func VerifC02_StoreCommitFails() {
	good := []byte("ok")
	mh, err := multihash.Sum(good, multihash.SHA2_256, -1)
	verif_Assume(err == nil)
	c := cid.NewCidV1([]uint64{cid.Raw, cid.DagCBOR}[verif_Choose("codec", 0, 1)], mh)
	key := cidlink.Link{Cid: c}.Binary()
	st := &vStore{m: map[string][]byte{}, failCommits: verif_Choose("failingCommits", 1, 2)}
	rt := &vRT{fn: func(req *http.Request) (*http.Response, error) { return vResp(200, good), nil }}
	s := &Syncer{client: &http.Client{Transport: rt}, rootURL: vURL("http://pub.example/ipni/v1/ad"), sync: &Sync{lsys: vLsys(st)}}
	ferr := s.fetchBlock(context.Background(), c)
	verif_Reach("fetched")
	for k, b := range st.m {
		verif_Assert(k == key && bytes.Equal(b, good), "every block in the store hashes to the CID it is stored under")
	}
	if _, ok := st.m[key]; !ok {
		verif_Assert(ferr != nil, "success implies the block is in the store")
	}
	st.failCommits = 0
	ferr = s.fetchBlock(context.Background(), c)
	verif_Assert(ferr == nil && bytes.Equal(st.m[key], good), "once the store works again the block is fetched and stored intact")
}

// C02: a block already in the store is not requested again, and a stored block
// that does not hash to its CID is not accepted as present (untrusted store).
func VerifC02_LocalBlock() {
	good := []byte("ok")
	mh, err := multihash.Sum(good, multihash.SHA2_256, -1)
	verif_Assume(err == nil)
	c := cid.NewCidV1(cid.Raw, mh)
	key := cidlink.Link{Cid: c}.Binary()
	st := &vStore{m: map[string][]byte{key: good}}
	rt := &vRT{fn: func(req *http.Request) (*http.Response, error) { return vResp(200, good), nil }}
	s := &Syncer{client: &http.Client{Transport: rt}, rootURL: vURL("http://pub.example/ipni/v1/ad"), sync: &Sync{lsys: vLsys(st)}}
	ferr := s.fetchBlock(context.Background(), c)
	verif_Reach("fetched")
	verif_Assert(ferr == nil, "a locally present block is a success")
	verif_Assert(len(rt.requests) == 0, "a block held locally is not requested from the publisher")
	verif_Assert(st.commits == 0, "a block held locally is not rewritten")
}

// a response body that delivers a prefix and then fails
type c02brokenBody struct {
	data []byte
	pos  int
	err  error
}

func (b *c02brokenBody) Read(p []byte) (int, error) {
	if b.pos >= len(b.data) {
		return 0, b.err
	}
	n := copy(p, b.data[b.pos:])
	b.pos += n
	return n, nil
}
func (b *c02brokenBody) Close() error { return nil }

// C02: a response cut short mid-body (connection drop, stream reset), followed
// by complete answers to any retried request: whatever the client does, a
// committed block hashes to its CID and a success implies a valid stored block.
func VerifC02_BrokenBody() {
	good := []byte("okay")
	mh, err := multihash.Sum(good, multihash.SHA2_256, -1)
	verif_Assume(err == nil)
	c := cid.NewCidV1(cid.Raw, mh)
	key := cidlink.Link{Cid: c}.Binary()
	cut := verif_Choose("bytesBeforeTheDrop", 0, len(good)-1)
	dropErr := []error{io.ErrUnexpectedEOF, network.ErrReset}[verif_Choose("dropKind", 0, 1)]
	brokenAttempts := verif_Choose("brokenAttempts", 1, 2)
	st := &vStore{m: map[string][]byte{}}
	attempts := 0
	rt := &vRT{fn: func(req *http.Request) (*http.Response, error) {
		attempts++
		if attempts <= brokenAttempts {
			return &http.Response{StatusCode: 200, Body: &c02brokenBody{data: good[:cut], err: dropErr}, Header: http.Header{}}, nil
		}
		return vResp(200, good), nil
	}}
	s := &Syncer{client: &http.Client{Transport: rt}, rootURL: vURL("http://pub.example/ipni/v1/ad"), sync: &Sync{lsys: vLsys(st)}}
	ferr := s.fetchBlock(context.Background(), c)
	verif_Reach("fetched")
	stored, committed := st.m[key]
	if committed {
		verif_Assert(bytes.Equal(stored, good), "whatever is committed under a CID is exactly the content that hashes to it (no remnants of an aborted response)")
	}
	if ferr == nil {
		verif_Assert(committed, "success implies the block is in the store")
	} else {
		verif_Assert(!committed, "failure commits nothing")
	}
	// a later sync of the same block succeeds and stores the genuine content
	attempts = brokenAttempts
	ferr2 := s.fetchBlock(context.Background(), c)
	stored, committed = st.m[key]
	verif_Assert(ferr2 == nil && committed && bytes.Equal(stored, good), "once the publisher answers completely the block is stored intact")
}

// C02: one sync client fetching several blocks whose CIDs use DIFFERENT hash
// functions (the subscriber reuses a client across blocks and syncs): each
// block is verified under its own CID's function and digest length, whatever
// was fetched before. The adversarial bodies include the value whose digest
// under the FIRST block's function equals the digest the second CID carries.
func VerifC02_MixedHashFunctions() {
	codes := []uint64{multihash.SHA2_256, multihash.DBL_SHA2_256, multihash.SHA2_512, multihash.IDENTITY}
	code1 := codes[verif_Choose("firstHashFunction", 0, 3)]
	code2 := codes[verif_Choose("secondHashFunction", 0, 3)]
	good1, good2 := []byte("first"), []byte("second block")
	mhLen := func(code uint64) int {
		if code == multihash.SHA2_512 {
			return 32 // truncated to the length of the 256-bit functions
		}
		return -1
	}
	mh1, err := multihash.Sum(good1, code1, mhLen(code1))
	verif_Assume(err == nil)
	mh2, err := multihash.Sum(good2, code2, mhLen(code2))
	verif_Assume(err == nil)
	c1, c2 := cid.NewCidV1(cid.Raw, mh1), cid.NewCidV1(cid.Raw, mh2)
	// candidate bodies for the second request
	inner := sha256.Sum256(good2)    // sha2-256 preimage of a dbl-sha2-256 digest
	inner512 := sha512.Sum512(good2) // a sha2-512 digest
	d2, derr := multihash.Decode(mh2)
	verif_Assume(derr == nil)
	bodies := [][]byte{good2, inner[:], inner512[:32], d2.Digest, good1}
	body2 := bodies[verif_Choose("secondBody", 0, len(bodies)-1)]

	st := &vStore{m: map[string][]byte{}}
	rt := &vRT{fn: func(req *http.Request) (*http.Response, error) {
		if strings.HasSuffix(req.URL.Path, "/"+c1.String()) {
			return vResp(200, good1), nil
		}
		return vResp(200, body2), nil
	}}
	s := &Syncer{client: &http.Client{Transport: rt}, rootURL: vURL("http://pub.example/ipni/v1/ad"), sync: &Sync{lsys: vLsys(st)}}
	verif_Assert(s.fetchBlock(context.Background(), c1) == nil, "the genuine first block is accepted")
	ferr := s.fetchBlock(context.Background(), c2)
	verif_Reach("fetched")
	stored, committed := st.m[cidlink.Link{Cid: c2}.Binary()]
	sum, serr := multihash.Sum(body2, c2.Prefix().MhType, c2.Prefix().MhLength)
	matches := serr == nil && bytes.Equal(sum, c2.Hash())
	if committed {
		verif_Assert(matches && bytes.Equal(stored, body2), "a committed block hashes to the CID it is stored under, under that CID's own hash function")
	}
	verif_Assert((ferr == nil) == matches, "the second block is accepted exactly when it hashes to its CID under the CID's own function")
	if bytes.Equal(body2, good2) {
		verif_Assert(ferr == nil && committed, "the genuine second block is accepted whatever was fetched before")
	}
}
