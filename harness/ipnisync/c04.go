package ipnisync

import (
	"context"
	"errors"
	"io"
	"net/http"
	"net/url"
	"strings"

	cidlink "github.com/ipld/go-ipld-prime/linking/cid"
	"github.com/libp2p/go-libp2p/core/network"
	"github.com/libp2p/go-libp2p/core/peer"
	"github.com/multiformats/go-multiaddr"
)

// C04 (d): the per-request fallback state machine of fetch never strands the
// client: against a publisher that keeps answering correctly (modern IPNI path
// or legacy root path), every fetch of an existing resource succeeds and
// every fetch of a missing one fails, whatever was requested before.
func VerifC04_FetchFallback() {
	plain := verif_Bool("plainHTTP")
	legacy := verif_Bool("legacyPublisher")
	verif_Assume(!legacy || plain) // a legacy publisher is only ever reached over plain HTTP
	// what a modern publisher answers for paths outside its IPNI mount
	// (200: a catch-all web server that answers every unknown path with some page)
	otherStatus := []int{http.StatusBadRequest, http.StatusNotFound, http.StatusForbidden, http.StatusOK}[verif_Choose("statusOutsideMount", 0, 3)]
	exists := map[string]bool{"head": true, "blk": true}
	// one request (-1: none) is answered with a transient fault status instead
	faultAt := verif_Choose("faultAtRequest", 0, 3+2*verif_Tier()) - 1
	faultStatus := []int{http.StatusForbidden, http.StatusNotFound, http.StatusInternalServerError}[verif_Choose("faultStatus", 0, 2)]
	reqNo, faulted := 0, false
	rt := &vRT{fn: func(req *http.Request) (*http.Response, error) {
		reqNo++
		if reqNo-1 == faultAt {
			faulted = true
			return vResp(faultStatus, nil), nil
		}
		p := req.URL.Path
		rsrc, ok := "", false
		if legacy {
			if strings.HasPrefix(p, "/") && !strings.Contains(p[1:], "/") {
				rsrc, ok = p[1:], true
			}
		} else if strings.HasPrefix(p, "/ipni/v1/ad/") {
			rsrc, ok = p[len("/ipni/v1/ad/"):], true
		}
		if !ok {
			if legacy {
				return vResp(http.StatusNotFound, nil), nil
			}
			if otherStatus == http.StatusOK {
				return vResp(otherStatus, []byte("<html>not what was asked for</html>")), nil
			}
			return vResp(otherStatus, nil), nil
		}
		if exists[rsrc] {
			return vResp(http.StatusOK, []byte("x")), nil
		}
		return vResp(http.StatusNotFound, nil), nil
	}}
	s := &Syncer{client: &http.Client{Transport: rt}, rootURL: vURL("http://pub.example/ipni/v1/ad"), plainHTTP: plain, sync: &Sync{}}
	n := verif_Choose("fetches", 1, 3+verif_Tier())
	for i := 0; i < n; i++ {
		r := []string{"head", "blk", "missing"}[verif_Choose("resource", 0, 2)]
		got := false
		faulted = false
		err := s.fetch(context.Background(), r, func(body io.Reader) error {
			// the caller verifies what it is given (fetchBlock: the digest; GetHead: the signature)
			b, rerr := io.ReadAll(body)
			if rerr != nil || string(b) != "x" {
				return errors.New("model: content does not verify")
			}
			got = true
			return nil
		})
		verif_Reach("fetched")
		if faulted {
			// the fetch that met the fault may fail; it must not impair the later ones
			verif_Assert(got == (err == nil), "a fetch reports success exactly when it delivered the resource")
		} else if exists[r] {
			verif_Assert(err == nil && got, "an existing resource is fetched from a publisher that answers correctly, whatever failed before")
		} else {
			verif_Assert(err != nil && !got, "a missing resource is reported as an error")
		}
	}
}

// C04 (d): address failover and the single retry after a stream reset.
func VerifC04_FetchFailover() {
	downA := verif_Bool("firstAddressDown")
	resetAt := verif_Choose("streamResetAtRequest", 0, 3) // 0 = never
	nreq := 0
	rt := &vRT{fn: func(req *http.Request) (*http.Response, error) {
		nreq++
		if req.URL.Host == "a.example" && downA {
			return nil, context.DeadlineExceeded
		}
		if nreq == resetAt {
			return nil, network.ErrReset
		}
		if strings.HasSuffix(req.URL.Path, "/ipni/v1/ad/head") {
			return vResp(http.StatusOK, []byte("x")), nil
		}
		return vResp(http.StatusNotFound, nil), nil
	}}
	ub := vURL("http://b.example/ipni/v1/ad")
	s := &Syncer{client: &http.Client{Transport: rt}, rootURL: vURL("http://a.example/ipni/v1/ad"), urls: []*url.URL{&ub}, sync: &Sync{}}
	for i := 0; i < 2; i++ {
		got := false
		err := s.fetch(context.Background(), "head", func(io.Reader) error { got = true; return nil })
		verif_Reach("fetched")
		verif_Assert(err == nil && got, "one unreachable address or one stream reset does not fail a fetch while another address answers")
	}
	if downA {
		verif_Assert(s.rootURL.Host == "b.example", "after failover the working address is kept")
	}
}

// C04 (d'): a legacy publisher (no IPNI path prefix) reached over plain HTTP at
// two addresses. After the legacy location was learned on the first address,
// that address goes down: the fetch fails over to the second address at the
// legacy location too, and later fetches keep working.
func VerifC04_FailoverAfterLegacyLearned() {
	downA := false
	dropKind := verif_Choose("dropKind", 0, 1)
	rt := &vRT{fn: func(req *http.Request) (*http.Response, error) {
		if req.URL.Host == "a.example" && downA {
			if dropKind == 0 {
				return nil, context.DeadlineExceeded
			}
			return nil, network.ErrReset
		}
		if req.URL.Path == "/head" {
			return vResp(http.StatusOK, []byte("x")), nil
		}
		return vResp(http.StatusNotFound, nil), nil
	}}
	ub := vURL("http://b.example/ipni/v1/ad")
	s := &Syncer{client: &http.Client{Transport: rt}, rootURL: vURL("http://a.example/ipni/v1/ad"), urls: []*url.URL{&ub}, sync: &Sync{}, plainHTTP: true}
	got := false
	err := s.fetch(context.Background(), "head", func(io.Reader) error { got = true; return nil })
	verif_Assert(err == nil && got, "a legacy publisher is found at its no-path location")
	downA = true
	for i := 0; i < 2; i++ {
		got = false
		err = s.fetch(context.Background(), "head", func(io.Reader) error { got = true; return nil })
		verif_Reach("fetched after the first address went down")
		verif_Assert(err == nil && got, "when the address in use goes down the other address of the same legacy publisher answers")
	}
}

// C04 (stream resets): a reset request is retried once — not more. A publisher
// that keeps resetting makes the fetch fail after exactly two attempts (so the
// sync fails, is notified and releases the publisher's handler); a later fetch,
// once the publisher answers, succeeds.
func VerifC04_ResetRetryBounded() {
	resets := verif_Choose("consecutiveResets", 1, 4)
	nreq, perFetch := 0, 0
	rt := &vRT{fn: func(req *http.Request) (*http.Response, error) {
		nreq++
		perFetch++
		verif_Assert(perFetch <= 2, "one fetch makes at most two attempts on a resetting connection")
		if perFetch > 2 {
			return nil, context.Canceled // (stop the runaway loop of a broken retry limit)
		}
		if nreq <= resets {
			return nil, network.ErrReset
		}
		return vResp(http.StatusOK, []byte("x")), nil
	}}
	s := &Syncer{client: &http.Client{Transport: rt}, rootURL: vURL("http://a.example/ipni/v1/ad"), sync: &Sync{}}
	got := false
	err := s.fetch(context.Background(), "head", func(io.Reader) error { got = true; return nil })
	verif_Reach("first fetch returned")
	if resets == 1 {
		verif_Assert(err == nil && got, "a single reset is absorbed by the one retry")
	} else {
		verif_Assert(err != nil && !got, "a connection that is reset again on the retry fails the fetch")
	}
	// later fetches, until the publisher answers
	for i := 0; i < 3 && (err != nil || i == 0); i++ {
		perFetch, got = 0, false
		err = s.fetch(context.Background(), "head", func(io.Reader) error { got = true; return nil })
	}
	verif_Assert(err == nil && got, "once the publisher stops resetting a fetch succeeds")
}

// C04 (a failed sync does not impair later syncs, client creation): creating
// the sync client for a publisher fails — no address at all, libp2p addresses
// only (no HTTP server to fall back to) — and afterwards a client for a
// publisher that is reachable is created, works, and the Sync shuts down:
// nothing the failed attempt held stays held.
func VerifC04_FailedClientCreationLeavesSyncUsable() {
	s := NewSync(cidlink.DefaultLinkSystem(), nil)
	rt := &vRT{fn: func(req *http.Request) (*http.Response, error) { return vResp(http.StatusOK, []byte("x")), nil }}
	s.client.Transport = rt
	pid := peer.ID([]byte{0x00, 0x01, 0xaa})
	var bad []multiaddr.Multiaddr
	switch verif_Choose("unreachablePublisher", 0, 2) {
	case 0: // no address and no stream host to look one up in
	case 1: // a libp2p transport address only
		bad = []multiaddr.Multiaddr{vMA("/ip4/10.0.0.1/tcp/4001")}
	case 2:
		bad = []multiaddr.Multiaddr{vMA("/ip4/10.0.0.1/udp/4001/quic-v1"), vMA("/ip4/10.0.0.1/tcp/4001")}
	}
	failures := verif_Choose("failedAttempts", 1, 2)
	for i := 0; i < failures; i++ {
		sy, err := s.NewSyncer(peer.AddrInfo{ID: pid, Addrs: bad})
		verif_Assert(err != nil && sy == nil, "no sync client for a publisher without any HTTP address")
	}
	sy, err := s.NewSyncer(peer.AddrInfo{ID: pid, Addrs: []multiaddr.Multiaddr{vMA("/ip4/127.0.0.1/tcp/80/http")}})
	verif_Reach("later creation returned") // (a creation that never returns is reported as a hang)
	verif_Assert(err == nil && sy != nil, "a later sync client is created as if the failed attempts had not happened")
	if sy == nil {
		return
	}
	got := false
	ferr := sy.fetch(context.Background(), "head", func(io.Reader) error { got = true; return nil })
	verif_Assert(ferr == nil && got, "and it fetches")
	s.Close()
	verif_Reach("closed")
}
