package ipnisync

import (
	"context"
	"net/http"

	"github.com/ipfs/go-cid"
	"github.com/multiformats/go-multihash"

	cidlink "github.com/ipld/go-ipld-prime/linking/cid"
	headschema "github.com/ipni/go-libipni/dagsync/ipnisync/head"
	"github.com/libp2p/go-libp2p/core/peer"
	"github.com/multiformats/go-multiaddr"
)

// C03: the sync client created for a publisher reached over plain HTTP keeps
// the publisher's ID and rejects a head signed by anyone else.
func VerifC03_NewSyncerKeepsPeerID() {
	k1 := c03newKey()
	k2 := c03newKey()
	signer := k1
	if verif_Bool("headSignedByOther") {
		signer = k2
	}
	root := c03cid(0xa7)
	h, err := headschema.NewSignedHead(root, "/topic", signer.priv)
	verif_Assume(err == nil)
	wire, err := h.Encode()
	verif_Assume(err == nil)
	rt := &vRT{fn: func(req *http.Request) (*http.Response, error) { return vResp(200, wire), nil }}
	// asking libp2phttp to authenticate the server is only a request: over the
	// plain-HTTP fallback nothing authenticates it, so the signer check must stay
	s := NewSync(cidlink.DefaultLinkSystem(), nil, ClientAuthServerPeerID(verif_Bool("authServerPeerID")))
	s.client.Transport = rt
	addr, err := multiaddr.NewMultiaddr("/ip4/127.0.0.1/tcp/9/http")
	verif_Assume(err == nil)
	syncer, serr := s.NewSyncer(peer.AddrInfo{ID: k1.id, Addrs: []multiaddr.Multiaddr{addr}})
	verif_Assert(serr == nil && syncer != nil, "a sync client is created for a plain-HTTP publisher")
	if syncer == nil {
		return
	}
	verif_Assert(syncer.peerInfo.ID == k1.id, "the sync client remembers the publisher it was created for")
	got, gerr := syncer.GetHead(context.Background())
	verif_Reach("answered")
	if signer.id == k1.id {
		verif_Assert(gerr == nil && got == root, "the expected publisher's head is accepted")
	} else {
		verif_Assert(gerr != nil, "a head signed by another identity is rejected over plain HTTP too")
	}
}

// C03 (the signature covers exactly the head CID): the same multihash spelled
// as CIDv0, CIDv1/dag-pb or CIDv1/raw are different CIDs. A head genuinely
// signed for one spelling must not validate with another spelling in its place.
func VerifC03_HeadCidSpelling() {
	k := c03newKey()
	mh, err := multihash.Sum([]byte("some advertisement"), multihash.SHA2_256, -1)
	verif_Assume(err == nil)
	spell := func(i int) cid.Cid {
		switch i {
		case 0:
			return cid.NewCidV0(mh)
		case 1:
			return cid.NewCidV1(cid.DagProtobuf, mh)
		default:
			return cid.NewCidV1(cid.Raw, mh)
		}
	}
	signed := spell(verif_Choose("signedSpelling", 0, 2))
	served := spell(verif_Choose("servedSpelling", 0, 2))
	topic := []string{"", "/indexer/ingest/mainnet"}[verif_Choose("topic", 0, 1)]
	h, err := headschema.NewSignedHead(signed, topic, k.priv)
	verif_Assume(err == nil)
	h.Head = cidlink.Link{Cid: served}
	wire, err := h.Encode()
	verif_Assume(err == nil)
	rt := &vRT{fn: func(req *http.Request) (*http.Response, error) { return vResp(200, wire), nil }}
	s := &Syncer{client: &http.Client{Transport: rt}, rootURL: vURL("http://pub.example/ipni/v1/ad"), sync: &Sync{}, peerInfo: peer.AddrInfo{ID: k.id}}
	got, gerr := s.GetHead(context.Background())
	verif_Reach("answered")
	if signed == served {
		verif_Assert(gerr == nil && got == signed, "the head the publisher signed is accepted")
	} else {
		verif_Assert(gerr != nil && got == cid.Undef, "a head whose CID is another spelling of the signed multihash is rejected")
	}
}

type c03rec struct {
	hdr    http.Header
	status int
	body   []byte
}

func (r *c03rec) Header() http.Header         { return r.hdr }
func (r *c03rec) WriteHeader(code int)        { r.status = code }
func (r *c03rec) Write(b []byte) (int, error) { r.body = append(r.body, b...); return len(b), nil }

// C03 (publisher side): what a publisher serves as the head verifies for the
// root it was given — the CURRENT root: once SetRoot(B) has returned, every
// later head request is answered with a head signed over B, whatever head
// requests were in flight while the root changed (all schedules within the bound).
func VerifC03_PublisherServesCurrentRoot() {
	k := c03newKey()
	rootA, rootB := c03cid(0xa1), c03cid(0xb2)
	p := &Publisher{privKey: k.priv, peerID: k.id, topic: "/topic"}
	p.SetRoot(rootA)
	get := func() (*c03rec, *http.Request) {
		req, err := http.NewRequestWithContext(context.Background(), http.MethodGet, "http://pub.example/head", nil)
		verif_Assume(err == nil)
		return &c03rec{hdr: http.Header{}}, req
	}
	done := make(chan struct{}, 2)
	go func() { // a head request in flight...
		w, req := get()
		p.ServeHTTP(w, req)
		done <- struct{}{}
	}()
	go func() { // ...while the root changes
		p.SetRoot(rootB)
		done <- struct{}{}
	}()
	<-done
	<-done
	verif_Reach("root changed")
	w, req := get()
	p.ServeHTTP(w, req)
	rt := &vRT{fn: func(r *http.Request) (*http.Response, error) { return vResp(200, w.body), nil }}
	s := &Syncer{client: &http.Client{Transport: rt}, rootURL: vURL("http://pub.example/ipni/v1/ad"), sync: &Sync{}, peerInfo: peer.AddrInfo{ID: k.id}}
	got, gerr := s.GetHead(context.Background())
	verif_Assert(gerr == nil, "what the publisher serves as its head verifies for a client expecting that publisher")
	verif_Assert(got == rootB, "after SetRoot returned, the head served is signed over the root the publisher was given")
}
