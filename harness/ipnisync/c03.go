package ipnisync

import (
	"context"
	"crypto/rand"
	"net/http"
	"strings"

	"github.com/ipfs/go-cid"
	cidlink "github.com/ipld/go-ipld-prime/linking/cid"
	headschema "github.com/ipni/go-libipni/dagsync/ipnisync/head"
	"github.com/libp2p/go-libp2p/core/crypto"
	"github.com/libp2p/go-libp2p/core/peer"
)

type c03key struct {
	priv crypto.PrivKey
	id   peer.ID
}

func c03newKey() c03key {
	priv, pub, err := crypto.GenerateEd25519Key(rand.Reader)
	verif_Assume(err == nil)
	id, err := peer.IDFromPublicKey(pub)
	verif_Assume(err == nil)
	return c03key{priv, id}
}

func c03cid(b byte) cid.Cid {
	c, err := cid.Cast([]byte{0x01, 0x55, 0x00, 0x01, b})
	verif_Assume(err == nil)
	return c
}

// C03: GetHead yields a CID only for a head signed by the expected publisher
// over exactly that CID and topic. The adversary assembles the response from
// the fields of two genuinely signed heads (expected publisher K1 over
// (c1,t1), another identity K2 over (c2,t2)) in any combination.
func VerifC03_GetHead() {
	k1 := c03newKey()
	k2 := c03newKey()
	c1, c2 := c03cid(0xa1), c03cid(0xa2)
	topics := []string{"", "/t/one", "/t/two"}
	t1 := topics[verif_Choose("topic1", 0, 2)]
	t2 := topics[verif_Choose("topic2", 0, 2)]
	h1, err := headschema.NewSignedHead(c1, t1, k1.priv)
	verif_Assume(err == nil)
	h2, err := headschema.NewSignedHead(c2, t2, k2.priv)
	verif_Assume(err == nil)

	pick := func(label string) *headschema.SignedHead {
		if verif_Bool(label) {
			return h1
		}
		return h2
	}
	forged := &headschema.SignedHead{}
	forged.Head = pick("headFrom1").Head
	switch verif_Choose("topicFrom", 0, 3) {
	case 0:
		forged.Topic = h1.Topic
	case 1:
		forged.Topic = h2.Topic
	case 2:
		forged.Topic = nil
	case 3:
		e := ""
		forged.Topic = &e
	}
	switch verif_Choose("keyFrom", 0, 2) {
	case 0:
		forged.Pubkey = h1.Pubkey
	case 1:
		forged.Pubkey = h2.Pubkey
	case 2:
		forged.Pubkey = nil
	}
	switch verif_Choose("sigFrom", 0, 2) {
	case 0:
		forged.Sig = h1.Sig
	case 1:
		forged.Sig = h2.Sig
	case 2:
		forged.Sig = nil
	}
	wire, err := forged.Encode()
	verif_Assume(err == nil)

	rt := &vRT{fn: func(req *http.Request) (*http.Response, error) { return vResp(200, wire), nil }}
	s := &Syncer{client: &http.Client{Transport: rt}, rootURL: vURL("http://pub.example/ipni/v1/ad"), sync: &Sync{authPeerID: verif_Bool("authServerPeerID")},
		peerInfo: peer.AddrInfo{ID: k1.id}, plainHTTP: verif_Bool("plainHTTP")}
	if verif_Bool("priorGenuineQueryOnSameClient") {
		// the subscriber reuses one sync client per publisher: an earlier, genuine
		// answer must not make a later, altered one acceptable
		genuineWire, gwerr := h1.Encode()
		verif_Assume(gwerr == nil)
		forgedWire := wire
		wire = genuineWire
		c0, e0 := s.GetHead(context.Background())
		verif_Assert(e0 == nil && c0 == c1, "the genuine head is accepted")
		wire = forgedWire
	}
	got, gerr := s.GetHead(context.Background())
	verif_Reach("answered")

	sameTopic := func(a, b *string) bool {
		as, bs := "", ""
		if a != nil {
			as = *a
		}
		if b != nil {
			bs = *b
		}
		return as == bs
	}
	genuine := forged.Head.(cidlink.Link).Cid == c1 && sameTopic(forged.Topic, h1.Topic) &&
		string(forged.Pubkey) == string(h1.Pubkey) && string(forged.Sig) == string(h1.Sig)
	if gerr == nil {
		verif_Reach("accepted")
		verif_Assert(genuine, "a head is accepted only when every field is the one the expected publisher signed")
		verif_Assert(got == c1, "the accepted CID is the signed CID")
	} else {
		verif_Assert(got == cid.Undef, "a rejected head yields no CID")
	}
	if genuine {
		verif_Assert(gerr == nil, "what the expected publisher signed for its root verifies")
	}
	// whatever was answered and rejected before, in this client or process, the
	// publisher's genuine head verifies afterwards (publisher and client both sign /
	// validate through the same code)
	genuineWire, gwerr := h1.Encode()
	verif_Assume(gwerr == nil)
	wire = genuineWire
	c3, e3 := s.GetHead(context.Background())
	verif_Assert(e3 == nil && c3 == c1, "after any earlier answer the expected publisher's genuine head is accepted")
	h3, serr := headschema.NewSignedHead(c2, t1, k1.priv)
	verif_Assert(serr == nil && h3 != nil, "and the publisher can sign its next head")
	if h3 != nil {
		w3, w3err := h3.Encode()
		verif_Assume(w3err == nil)
		wire = w3
		c4, e4 := s.GetHead(context.Background())
		verif_Assert(e4 == nil && c4 == c2, "which verifies in turn")
	}
}

// C03: what a publisher serves for its root verifies (sign/validate agree on
// the signed message for every topic form).
func VerifC03_PublisherHeadVerifies() {
	k := c03newKey()
	topic := []string{"", "/t", "/indexer/ingest/mainnet"}[verif_Choose("topic", 0, 2)]
	root := c03cid(verif_U8("rootDigest"))
	wire, err := newEncodedSignedHead(root, topic, k.priv)
	verif_Assert(err == nil, "the publisher can encode its signed head")
	rt := &vRT{fn: func(req *http.Request) (*http.Response, error) { return vResp(200, wire), nil }}
	s := &Syncer{client: &http.Client{Transport: rt}, rootURL: vURL("http://pub.example/ipni/v1/ad"), sync: &Sync{},
		peerInfo: peer.AddrInfo{ID: k.id}}
	got, gerr := s.GetHead(context.Background())
	verif_Reach("answered")
	verif_Assert(gerr == nil && got == root, "the head a publisher serves for its root is accepted by a client expecting that publisher")
	other := c03newKey()
	s2 := &Syncer{client: &http.Client{Transport: rt}, rootURL: vURL("http://pub.example/ipni/v1/ad"), sync: &Sync{},
		peerInfo: peer.AddrInfo{ID: other.id}}
	got2, gerr2 := s2.GetHead(context.Background())
	verif_Assert(gerr2 != nil && got2 == cid.Undef, "a client expecting a different publisher rejects it")
}

// C03: the head a publisher serves verifies
// whatever its encoded size — topics (like large public keys) that make the
// message longer than one or four kilobytes included.
func VerifC03_LongHeadVerifies() {
	k := c03newKey()
	topic := "/" + strings.Repeat("long-topic/", []int{0, 10, 120, 500}[verif_Choose("topicRepeats", 0, 3)])
	root := c03cid(0xa1)
	wire, err := newEncodedSignedHead(root, topic, k.priv)
	verif_Assert(err == nil, "the publisher can encode its signed head")
	rt := &vRT{fn: func(req *http.Request) (*http.Response, error) { return vResp(200, wire), nil }}
	s := &Syncer{client: &http.Client{Transport: rt}, rootURL: vURL("http://pub.example/ipni/v1/ad"), sync: &Sync{},
		peerInfo: peer.AddrInfo{ID: k.id}}
	got, gerr := s.GetHead(context.Background())
	verif_Reach("answered")
	verif_Assert(gerr == nil && got == root, "the head a publisher serves for its root is accepted whatever its encoded size")
}
