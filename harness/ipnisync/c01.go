package ipnisync

import (
	"context"
	"net/http"
	"strings"

	"github.com/ipfs/go-cid"
	"github.com/ipld/go-ipld-prime"
	"github.com/ipld/go-ipld-prime/codec/dagcbor"
	"github.com/ipld/go-ipld-prime/fluent"
	cidlink "github.com/ipld/go-ipld-prime/linking/cid"
	"github.com/ipld/go-ipld-prime/multicodec"
	basicnode "github.com/ipld/go-ipld-prime/node/basic"
	"github.com/ipld/go-ipld-prime/traversal/selector"
	selectorbuilder "github.com/ipld/go-ipld-prime/traversal/selector/builder"
	"github.com/libp2p/go-libp2p/core/peer"
	"github.com/multiformats/go-multihash"
)

var c01LinkProto = cidlink.LinkPrototype{Prefix: cid.Prefix{Version: 1, Codec: cid.DagCBOR, MhType: multihash.SHA2_256, MhLength: 16}}

// c01Chain builds a real dag-cbor chain of n advertisement-shaped nodes
// (newest first) in the publisher's store and returns their CIDs.
func c01Chain(pub *vStore, n int) []cid.Cid {
	// the engine runs package initialisers lazily on first use of a package's
	// globals, so dag-cbor's self-registration is done explicitly (idempotent)
	multicodec.RegisterEncoder(cid.DagCBOR, dagcbor.Encode)
	multicodec.RegisterDecoder(cid.DagCBOR, dagcbor.Decode)
	lsys := vLsys(pub)
	cids := make([]cid.Cid, n)
	var prev ipld.Link
	for i := n - 1; i >= 0; i-- {
		p := prev
		nd := fluent.MustBuildMap(basicnode.Prototype.Map, 2, func(na fluent.MapAssembler) {
			na.AssembleEntry("ContextID").AssignString(string(rune('a' + i)))
			if p != nil {
				na.AssembleEntry("PreviousID").AssignLink(p)
			}
		})
		l, err := lsys.Store(ipld.LinkContext{}, c01LinkProto, nd)
		verif_Assume(err == nil)
		cids[i] = l.(cidlink.Link).Cid
		prev = l
	}
	return cids
}

// c01Selector is dagsync's ExploreRecursiveWithStopNode over the ad sequence
// (ExploreFields{PreviousID: recursive edge}), restated here because the
// package under test cannot import its importer.
func c01Selector(limit selector.RecursionLimit, stop ipld.Link) ipld.Node {
	ssb := selectorbuilder.NewSelectorSpecBuilder(basicnode.Prototype.Any)
	seq := ssb.ExploreFields(func(efsb selectorbuilder.ExploreFieldsSpecBuilder) {
		efsb.Insert("PreviousID", ssb.ExploreRecursiveEdge())
	}).Node()
	return fluent.MustBuildMap(basicnode.Prototype.Map, 1, func(na fluent.MapAssembler) {
		na.AssembleEntry(selector.SelectorKey_ExploreRecursive).CreateMap(3, func(na fluent.MapAssembler) {
			na.AssembleEntry(selector.SelectorKey_Limit).CreateMap(1, func(na fluent.MapAssembler) {
				if limit.Mode() == selector.RecursionLimit_Depth {
					na.AssembleEntry(selector.SelectorKey_LimitDepth).AssignInt(limit.Depth())
				} else {
					na.AssembleEntry(selector.SelectorKey_LimitNone).CreateMap(0, func(na fluent.MapAssembler) {})
				}
			})
			na.AssembleEntry(selector.SelectorKey_Sequence).AssignNode(seq)
			if stop != nil {
				cond := fluent.MustBuildMap(basicnode.Prototype.Map, 1, func(na fluent.MapAssembler) {
					na.AssembleEntry(string(selector.ConditionMode_Link)).AssignLink(stop)
				})
				na.AssembleEntry(selector.SelectorKey_StopAt).AssignNode(cond)
			}
		})
	})
}

// C01 (+C02/C04 clauses of the traversal): the REAL Syncer.Sync — go-ipld-prime
// selector compilation, traversal, LinkSystem.Load, dag-cbor decoding, fetchBlock
// and the harness network — over a real 3-block chain. For every subset of
// blocks already local, every depth limit, stop position and fault position:
// exactly the requested segment is visited; only blocks not already local are
// requested, each once; the hook is called for every block of the segment (local
// or not) newest to oldest, after the walk; a failed walk calls no hook.
func VerifC01_RealTraversal() {
	n := 3 + verif_Tier() // chain length: 3 (quick), 4 (thorough)
	pub := &vStore{m: map[string][]byte{}}
	chain := c01Chain(pub, n)
	local := verif_Choose("localMask", 0, 1<<n-1) // which blocks the subscriber already has
	depth := verif_Choose("depthLimit", 0, n+1)   // 0 = no limit
	stopAt := verif_Choose("stopAt", 0, n)        // 0 = none, k = stop link is block k-1... n = a CID not on the chain
	start := verif_Choose("start", 0, n-1)
	faultAt := verif_Choose("faultAt", 0, n) // n = no fault; k = the request for block k fails

	st := &vStore{m: map[string][]byte{}}
	for i := 0; i < n; i++ {
		if local&(1<<i) != 0 {
			k := cidlink.Link{Cid: chain[i]}.Binary()
			st.m[k] = pub.m[k]
		}
	}
	requested := map[int]int{}
	rt := &vRT{fn: func(req *http.Request) (*http.Response, error) {
		for i, c := range chain {
			if strings.HasSuffix(req.URL.Path, "/"+c.String()) {
				requested[i]++
				if i == faultAt {
					return vResp(500, nil), nil
				}
				return vResp(200, pub.m[cidlink.Link{Cid: c}.Binary()]), nil
			}
		}
		return vResp(404, nil), nil
	}}
	var hooked []cid.Cid
	pid := peer.ID("publisher-1")
	sy := &Sync{lsys: vLsys(st), blockHook: func(p peer.ID, c cid.Cid) {
		verif_Assert(p == pid, "the hook is told the publisher the sync client was created for")
		hooked = append(hooked, c)
	}}
	s := &Syncer{client: &http.Client{Transport: rt}, rootURL: vURL("http://pub.example/ipni/v1/ad"), sync: sy, peerInfo: peer.AddrInfo{ID: pid}, plainHTTP: true}

	limit := selector.RecursionLimitNone()
	if depth > 0 {
		limit = selector.RecursionLimitDepth(int64(depth))
	}
	var stop ipld.Link
	stopIdx := -1
	switch {
	case stopAt == n:
		other, _ := c01LinkProto.Sum([]byte("not on the chain"))
		stop = cidlink.Link{Cid: other}
	case stopAt > 0:
		stopIdx = stopAt - 1
		stop = cidlink.Link{Cid: chain[stopIdx]}
	}
	before := len(st.m)
	err := s.Sync(context.Background(), chain[start], c01Selector(limit, stop))
	verif_Reach("synced")

	// the requested segment: the start block, then older blocks while the depth
	// limit allows and the next link is not the stop link
	var want []int
	for i := start; i < n; i++ {
		if i > start && i == stopIdx {
			break
		}
		if i > start && depth > 0 && len(want) >= depth {
			break
		}
		want = append(want, i)
	}
	// the walk fails iff a block of the segment that is not local cannot be fetched
	failIdx := -1
	for _, i := range want {
		if local&(1<<i) == 0 && i == faultAt {
			failIdx = i
			break
		}
	}
	if failIdx < 0 {
		verif_Assert(err == nil, "a sync whose every needed block is available succeeds")
		verif_Reach("ok")
		verif_Assert(len(hooked) == len(want), "the hook is called once per block of the requested segment")
		for k, i := range want {
			if k < len(hooked) {
				verif_Assert(hooked[k] == chain[i], "hook calls are in traversal order, newest to oldest")
			}
		}
	} else {
		verif_Assert(err != nil, "a block of the segment that cannot be fetched fails the sync")
		verif_Assert(len(hooked) == 0, "a failed walk reports no block")
	}
	for i := 0; i < n; i++ {
		inSeg := false
		for _, w := range want {
			if w == i && (failIdx < 0 || i <= failIdx) {
				inSeg = true
			}
		}
		if local&(1<<i) != 0 || !inSeg {
			verif_Assert(requested[i] == 0, "blocks already local and blocks outside the segment are not requested")
		} else {
			verif_Assert(requested[i] == 1, "each missing block of the segment is requested exactly once")
		}
		_, have := st.m[cidlink.Link{Cid: chain[i]}.Binary()]
		if inSeg && i != failIdx {
			verif_Assert(have, "every block of the segment walked so far is in the store")
		}
		if !inSeg && local&(1<<i) == 0 {
			verif_Assert(!have, "nothing outside the segment is stored")
		}
	}
	verif_Assert(len(st.m) >= before, "nothing is removed")
}
