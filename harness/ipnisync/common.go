package ipnisync

import (
	"bytes"
	"errors"
	"io"
	"net/http"
	"net/url"

	"github.com/ipld/go-ipld-prime"
	cidlink "github.com/ipld/go-ipld-prime/linking/cid"
	"github.com/multiformats/go-multiaddr"
)

// vRT is the harness network: an http.RoundTripper answering from a function.
type vRT struct {
	fn       func(req *http.Request) (*http.Response, error)
	requests []string // request URL paths, in order
}

func (r *vRT) RoundTrip(req *http.Request) (*http.Response, error) {
	r.requests = append(r.requests, req.URL.Path)
	return r.fn(req)
}

func vResp(status int, body []byte) *http.Response {
	return &http.Response{StatusCode: status, Body: io.NopCloser(bytes.NewReader(body)), Header: http.Header{}}
}

// vStore is a block store with explicit commits.
type vStore struct {
	m       map[string][]byte
	commits int
	// failCommits: that many commit attempts fail (a store that is briefly unavailable)
	failCommits int
}

func vLsys(st *vStore) ipld.LinkSystem {
	lsys := cidlink.DefaultLinkSystem()
	lsys.StorageReadOpener = func(lc ipld.LinkContext, l ipld.Link) (io.Reader, error) {
		b, ok := st.m[l.Binary()]
		if !ok {
			return nil, ipld.ErrNotExists{}
		}
		return bytes.NewReader(b), nil
	}
	lsys.StorageWriteOpener = func(lc ipld.LinkContext) (io.Writer, ipld.BlockWriteCommitter, error) {
		var buf bytes.Buffer
		return &buf, func(l ipld.Link) error {
			if st.failCommits > 0 {
				st.failCommits--
				return errors.New("model: store cannot commit right now")
			}
			st.m[l.Binary()] = append([]byte{}, buf.Bytes()...)
			st.commits++
			return nil
		}, nil
	}
	return lsys
}

func vURL(s string) url.URL {
	u, err := url.Parse(s)
	verif_Assume(err == nil)
	return *u
}

func vMA(s string) multiaddr.Multiaddr {
	m, err := multiaddr.NewMultiaddr(s)
	verif_Assume(err == nil)
	return m
}
