package client

import (
	"bytes"
	"context"
	"crypto/rand"
	"io"
	"net/http"

	"github.com/ipfs/go-cid"
	"github.com/ipni/go-libipni/announce/message"
	"github.com/ipni/go-libipni/ingest/model"
	"github.com/libp2p/go-libp2p/core/crypto"
	"github.com/libp2p/go-libp2p/core/peer"
	"github.com/multiformats/go-multiaddr"
)

// the indexer's ingest endpoint: records what arrives, answers as configured
type c18rt struct {
	status int
	path   string
	method string
	body   []byte
}

func (r *c18rt) RoundTrip(req *http.Request) (*http.Response, error) {
	r.path, r.method = req.URL.Path, req.Method
	if req.Body != nil {
		b, err := io.ReadAll(req.Body)
		verif_Assume(err == nil)
		r.body = b
	}
	return &http.Response{StatusCode: r.status, Header: http.Header{}, Body: io.NopCloser(bytes.NewReader(nil)), Request: req}, nil
}

// C18 / C10 through the library's ingest client: what Register and
// IndexContent send is accepted by the readers and returns the fields the
// caller gave (requests "produced by the library's own constructors are always
// accepted"), what Announce sends decodes to the announced CID with the
// provider's ID appended to each address; a request signed with another
// identity's key is sent all the same and rejected by the reader.
func VerifC18_IngestClientRequests() {
	priv, pub, err := crypto.GenerateEd25519Key(rand.Reader)
	verif_Assume(err == nil)
	id, err := peer.IDFromPublicKey(pub)
	verif_Assume(err == nil)
	rt := &c18rt{status: http.StatusOK}
	c, cerr := New("http://indexer.example/some/path", WithClient(&http.Client{Transport: rt}))
	verif_Assert(cerr == nil && c != nil, "an ingest client is created for an http URL")
	if c == nil {
		return
	}
	addrs := []string{"/ip4/9.9.9.9/tcp/5", "/ip4/1.2.3.4/tcp/5"}[:verif_Choose("addresses", 1, 2)]
	named := id
	wrongKey := verif_Bool("signedWithAnotherIdentitysKey")
	if wrongKey {
		_, pub2, e2 := crypto.GenerateEd25519Key(rand.Reader)
		verif_Assume(e2 == nil)
		named, err = peer.IDFromPublicKey(pub2)
		verif_Assume(err == nil && named != id)
	}
	switch verif_Choose("call", 0, 1) {
	case 0:
		rerr := c.Register(context.Background(), named, priv, addrs)
		verif_Reach("registered")
		verif_Assert(rerr == nil, "the call succeeds when the indexer answers 200")
		verif_Assert(rt.method == http.MethodPost && rt.path == "/register", "the request goes to the register endpoint")
		rec, perr := model.ReadRegisterRequest(rt.body)
		if wrongKey {
			verif_Assert(perr != nil && rec == nil, "a register request signed by another identity is rejected by the reader")
			return
		}
		verif_Assert(perr == nil && rec != nil, "what the client sent is accepted by the reader")
		if rec != nil {
			verif_Assert(rec.PeerID == id && len(rec.Addrs) == len(addrs), "and returns the provider and addresses given")
			for i := range addrs {
				if i < len(rec.Addrs) {
					verif_Assert(rec.Addrs[i].String() == addrs[i], "in the order given")
				}
			}
		}
	case 1:
		mh := verif_Bytes("multihash", 2)
		ctxID := verif_Bytes("contextID", verif_Choose("ctxLen", 0, 2))
		md := verif_Bytes("metadata", verif_Choose("mdLen", 0, 2))
		ierr := c.IndexContent(context.Background(), named, priv, mh, ctxID, md, addrs)
		verif_Reach("indexed")
		verif_Assert(ierr == nil, "the call succeeds when the indexer answers 200")
		verif_Assert(rt.method == http.MethodPost && rt.path == "/ingest/content", "the request goes to the content endpoint")
		req, perr := model.ReadIngestRequest(rt.body)
		if wrongKey {
			verif_Assert(perr != nil && req == nil, "an ingest request signed by another identity is rejected by the reader")
			return
		}
		verif_Assert(perr == nil && req != nil, "what the client sent is accepted by the reader")
		if req != nil {
			verif_Assert(req.ProviderID == id && bytes.Equal(req.Multihash, mh) && bytes.Equal(req.ContextID, ctxID) && bytes.Equal(req.Metadata, md) && len(req.Addrs) == len(addrs), "and returns the fields given")
		}
	}
}

// C10 through the library's ingest client: what Announce puts on the wire
// decodes to the announced CID with the provider's ID appended to each address.
func VerifC10_IngestClientAnnounce() {
	rt := &c18rt{status: http.StatusOK}
	c, cerr := New("http://indexer.example/some/path", WithClient(&http.Client{Transport: rt}))
	verif_Assert(cerr == nil && c != nil, "an ingest client is created for an http URL")
	if c == nil {
		return
	}
	addrs := []string{"/ip4/9.9.9.9/tcp/5", "/ip4/1.2.3.4/tcp/5"}[:verif_Choose("addresses", 0, 2)]
	var id peer.ID
	var err error
	root, rerr := cid.Cast([]byte{0x01, 0x55, 0x00, 0x01, verif_U8("rootDigest")})
	verif_Assume(rerr == nil)
	var mas []multiaddr.Multiaddr
	for _, a := range addrs {
		m, merr := multiaddr.NewMultiaddr(a)
		verif_Assume(merr == nil)
		mas = append(mas, m)
	}
	if verif_Bool("indexerAnswers204") {
		rt.status = http.StatusNoContent
	}
	// (a peer ID in its real byte form: it becomes a /p2p component of each address)
	id, err = peer.IDFromBytes([]byte{0x00, 0x02, 0xaa, 0x01})
	verif_Assume(err == nil)
	aerr := c.Announce(context.Background(), &peer.AddrInfo{ID: id, Addrs: mas}, root)
	verif_Reach("announced")
	verif_Assert(aerr == nil, "the call succeeds when the indexer answers 200 or 204")
	verif_Assert(rt.method == http.MethodPut && rt.path == "/ingest/announce", "the request goes to the announce endpoint")
	var got message.Message
	verif_Assert(got.UnmarshalCBOR(bytes.NewReader(rt.body)) == nil, "what is on the wire decodes")
	verif_Assert(got.Cid == root && got.OrigPeer == "", "the receiver decodes the announced CID")
	gaddrs, gerr := got.GetAddrs()
	if len(mas) == 0 {
		verif_Assert(gerr == nil && len(gaddrs) == 1, "without addresses the provider's ID travels alone")
		if len(gaddrs) == 1 {
			tr, pid := peer.SplitAddr(gaddrs[0])
			verif_Assert(pid == id && tr == nil, "as a /p2p address")
		}
		return
	}
	verif_Assert(gerr == nil && len(gaddrs) == len(mas), "and as many addresses as were announced")
	for i := range gaddrs {
		if i < len(mas) {
			tr, pid := peer.SplitAddr(gaddrs[i])
			verif_Assert(pid == id && tr != nil && tr.Equal(mas[i]), "each carrying the provider's ID")
		}
	}
}
