package httpsender

import (
	"bytes"
	"context"
	"encoding/json"
	"io"
	"net/http"
	"net/url"
	"sync"

	"github.com/ipfs/go-cid"
	"github.com/ipni/go-libipni/announce/message"
	"github.com/libp2p/go-libp2p/core/peer"
	"github.com/multiformats/go-multiaddr"
)

type c10rt struct {
	mu     sync.Mutex // (the sender contacts several indexers concurrently)
	bodies map[string][]byte
	ctypes map[string]string
	status int
}

func (r *c10rt) RoundTrip(req *http.Request) (*http.Response, error) {
	b, _ := io.ReadAll(req.Body)
	r.mu.Lock()
	defer r.mu.Unlock()
	r.bodies[req.URL.Host] = b
	if r.ctypes != nil {
		r.ctypes[req.URL.Host] = req.Header.Get("Content-Type")
	}
	return &http.Response{StatusCode: r.status, Body: io.NopCloser(bytes.NewReader(nil)), Header: http.Header{}}, nil
}

// C10 (what the senders put on the wire is what a receiver decodes): the real
// HTTP sender — publisher ID appended to every address, configured extra data,
// CBOR body — to one or two indexers; each receives bytes that decode (real
// UnmarshalCBOR) to the announced CID, the extra data, and addresses that split
// back into exactly the original transport address and the publisher's ID.
func VerifC10_HTTPSenderWire() {
	// (concrete publisher IDs: the /p2p component is built from the ID's base58 text)
	pid, err := peer.IDFromBytes([]byte{0x00, 0x02, 0xaa, []byte{0x01, 0xfe}[verif_Choose("publisher", 0, 1)]})
	verif_Assume(err == nil)
	nURLs := verif_Choose("indexers", 1, 2)
	var urls []*url.URL
	for _, h := range []string{"a.example", "b.example"}[:nURLs] {
		u, perr := url.Parse("http://" + h)
		verif_Assume(perr == nil)
		urls = append(urls, u)
	}
	rt := &c10rt{bodies: map[string][]byte{}, status: []int{200, 204}[verif_Choose("status", 0, 1)]}
	opts := []Option{WithClient(&http.Client{Transport: rt})}
	var extra []byte
	if verif_Bool("extraData") {
		extra = verif_Bytes("extra", 2)
		opts = append(opts, WithExtraData(extra))
	}
	s, err := New(urls, pid, opts...)
	verif_Assert(err == nil, "a sender for a valid publisher ID and URL list is created")

	c, cerr := cid.Cast([]byte{0x01, 0x55, 0x00, 0x01, verif_U8("cidDigest")})
	verif_Assume(cerr == nil)
	nAddrs := verif_Choose("addrs", 0, 2)
	var addrs []multiaddr.Multiaddr
	for i := 0; i < nAddrs; i++ {
		ip := verif_Bytes("ip4", 4)
		raw := []byte{0x04, ip[0], ip[1], ip[2], ip[3], 0x06, 0x1f, 0x90}
		switch verif_Choose("addressCarriesAnotherPeerID", 0, 2) {
		case 1: // .../p2p/<another peer>
			raw = append(raw, 0xa5, 0x03, 0x03, 0x00, 0x01, 0xbb)
		case 2: // a circuit-relay address: .../p2p/<relay>/p2p-circuit
			raw = append(raw, 0xa5, 0x03, 0x03, 0x00, 0x01, 0xbb, 0xa2, 0x02)
		}
		a, aerr := multiaddr.NewMultiaddrBytes(raw)
		verif_Assume(aerr == nil)
		addrs = append(addrs, a)
	}
	msg := message.Message{Cid: c}
	msg.SetAddrs(addrs)
	unknownAt := -1
	if verif_Bool("messageHasAnUnknownProtocolAddress") {
		// an address with a protocol code this build does not know: skipped, never failing the message
		unknownAt = verif_Choose("unknownAddressPosition", 0, nAddrs)
		var with [][]byte
		with = append(with, msg.Addrs[:unknownAt]...)
		with = append(with, []byte{0xfa, 0x7f, 0x01})
		with = append(with, msg.Addrs[unknownAt:]...)
		msg.Addrs = with
	}
	serr := s.Send(context.Background(), msg)
	verif_Reach("sent")
	verif_Assert(serr == nil, "sending to indexers that answer 200/204 succeeds")
	verif_Assert(len(rt.bodies) == nURLs, "every indexer received the announcement")
	if unknownAt < 0 {
		verif_Assert(len(msg.Addrs) == nAddrs, "the caller's message is not modified")
	} else {
		verif_Assert(len(msg.Addrs) == nAddrs+1, "the caller's message is not modified")
	}
	for _, body := range rt.bodies {
		var got message.Message
		derr := got.UnmarshalCBOR(bytes.NewReader(body))
		verif_Assert(derr == nil, "what is on the wire decodes")
		if derr != nil {
			continue
		}
		verif_Assert(got.Cid == c, "the receiver decodes the announced CID")
		verif_Assert(bytes.Equal(got.ExtraData, extra), "the receiver decodes the configured extra data")
		verif_Assert(got.OrigPeer == "", "a direct announcement has no original-peer field")
		gaddrs, gerr := got.GetAddrs()
		if unknownAt >= 0 && nAddrs == 0 {
			// nothing usable was announced: the publisher's ID travels alone
			verif_Assert(gerr == nil && len(gaddrs) == 1, "a message whose only address is unknown goes out with the publisher's ID alone")
			if len(gaddrs) == 1 {
				transport, id := peer.SplitAddr(gaddrs[0])
				verif_Assert(id == pid && transport == nil, "the address on the wire is the publisher's ID")
			}
			continue
		}
		verif_Assert(gerr == nil && len(gaddrs) == nAddrs, "the receiver decodes as many addresses as were announced (unknown ones skipped)")
		for i := range gaddrs {
			if i >= nAddrs {
				break
			}
			transport, id := peer.SplitAddr(gaddrs[i])
			verif_Assert(id == pid, "every address on the wire carries the publisher's ID")
			verif_Assert(transport != nil && transport.Equal(addrs[i]), "and splits back into the announced address")
		}
	}
}

// C10 (JSON path of the HTTP sender): the same message sent through SendJson
// and through Send arrives with the same CID, addresses (publisher ID
// appended) and extra data — the message's own extra data unless the sender
// was configured with some. JSON itself is the model codec
// (decode(encode(x)) = x); what is decided is what the sender puts into it.
func VerifC10_HTTPSenderJSON() {
	pid, err := peer.IDFromBytes([]byte{0x00, 0x02, 0xaa, 0x01})
	verif_Assume(err == nil)
	u, perr := url.Parse("http://a.example")
	verif_Assume(perr == nil)
	urls := []*url.URL{u}
	if verif_Bool("twoIndexers") {
		u2, perr2 := url.Parse("http://b.example")
		verif_Assume(perr2 == nil)
		urls = append(urls, u2)
	}
	rt := &c10rt{bodies: map[string][]byte{}, ctypes: map[string]string{}, status: 200}
	opts := []Option{WithClient(&http.Client{Transport: rt})}
	var configured []byte
	if verif_Bool("senderHasExtraData") {
		configured = verif_Bytes("senderExtra", 2)
		opts = append(opts, WithExtraData(configured))
	}
	s, err := New(urls, pid, opts...)
	verif_Assume(err == nil)
	c, cerr := cid.Cast([]byte{0x01, 0x55, 0x00, 0x01, verif_U8("cidDigest")})
	verif_Assume(cerr == nil)
	msg := message.Message{Cid: c}
	if verif_Bool("messageHasExtraData") {
		msg.ExtraData = verif_Bytes("messageExtra", 2)
	}
	if verif_Bool("hasAddress") {
		a, aerr := multiaddr.NewMultiaddr("/ip4/8.8.4.4/tcp/80")
		verif_Assume(aerr == nil)
		msg.SetAddrs([]multiaddr.Multiaddr{a})
	}
	wantExtra := msg.ExtraData
	if len(configured) != 0 {
		wantExtra = configured
	}
	verif_Assert(s.SendJson(context.Background(), msg) == nil, "sending JSON succeeds")
	var viaJSON message.Message
	verif_Assert(json.Unmarshal(rt.bodies["a.example"], &viaJSON) == nil, "the JSON body decodes")
	for _, uu := range urls {
		// a receiver picks its decoder from the Content-Type: a JSON body must say so, to every indexer
		verif_Assert(rt.ctypes[uu.Host] == "application/json", "a JSON announcement is labelled as JSON for every indexer")
		verif_Assert(bytes.Equal(rt.bodies[uu.Host], rt.bodies["a.example"]), "every indexer receives the same bytes")
	}
	verif_Assert(s.Send(context.Background(), msg) == nil, "sending CBOR succeeds")
	for _, uu := range urls {
		verif_Assert(rt.ctypes[uu.Host] != "application/json", "a CBOR announcement is not labelled as JSON")
	}
	var viaCBOR message.Message
	verif_Assert(viaCBOR.UnmarshalCBOR(bytes.NewReader(rt.bodies["a.example"])) == nil, "the CBOR body decodes")
	verif_Reach("both decoded")
	verif_Assert(viaJSON.Cid == c && viaCBOR.Cid == c, "both carry the announced CID")
	verif_Assert(bytes.Equal(viaJSON.ExtraData, wantExtra) && bytes.Equal(viaCBOR.ExtraData, wantExtra), "both carry the configured extra data, or the message's own when none is configured")
	verif_Assert(len(viaJSON.Addrs) == len(msg.Addrs) && len(viaCBOR.Addrs) == len(msg.Addrs), "both carry every address")
	for i := range viaJSON.Addrs {
		if i < len(viaCBOR.Addrs) {
			verif_Assert(bytes.Equal(viaJSON.Addrs[i], viaCBOR.Addrs[i]), "the JSON and CBOR forms carry the same address bytes (publisher ID appended)")
		}
	}
}
