package maurl

import (
	"net/url"

	"github.com/multiformats/go-multiaddr"
)

// C20 (a)+(b): URL -> multiaddr -> URL keeps scheme, host, port and path, for
// paths over the full byte range (spaces, plus signs, percent, slashes, ...).
func VerifC20_PathRoundTrip() {
	scheme := []string{"http", "https"}[verif_Choose("scheme", 0, 1)]
	host := []string{"1.2.3.4", "[2001:db8::1]", "example.com"}[verif_Choose("hostKind", 0, 2)]
	port := []string{"", ":0", ":80", ":65535"}[verif_Choose("port", 0, 3)]
	// symbolic path bytes (every byte value) up to the tier's length; in addition
	// a few longer concrete paths with the characters that matter
	n := verif_Choose("pathLen", 0, 1+verif_Tier())
	path := ""
	if n > 0 {
		path = "/" + verif_Str("path", n)
	} else {
		path = []string{"", "/", "/a b/c d", "/a+b", "/a%20b", "//a//b/", "/a%2Fb?x=1&y=2#f", "/\xc3\xa9/\x00\xff"}[verif_Choose("concretePath", 0, 7)]
	}
	u := &url.URL{Scheme: scheme, Host: host + port, Path: path}
	ma, err := FromURL(u)
	verif_Reach("converted")
	verif_Assert(err == nil, "an http(s) URL converts to a multiaddr")
	if err != nil {
		return
	}
	back, berr := ToURL(ma)
	verif_Reach("converted back")
	verif_Assert(berr == nil, "the multiaddr converts back to a URL")
	if berr != nil {
		return
	}
	verif_Assert(back.Scheme == scheme, "scheme is preserved")
	verif_Assert(back.Host == host+port, "host and port are preserved")
	verif_Assert(back.Path == path, "path is preserved")
}

// C20 (b): tls/http and https forms both map to https; plain http stays http.
func VerifC20_Schemes() {
	for _, c := range []struct{ ma, scheme string }{
		{"/dns/example.com/tcp/443/https", "https"},
		{"/dns/example.com/tcp/443/tls/http", "https"},
		{"/ip4/1.2.3.4/tcp/80/http", "http"},
		{"/ip4/1.2.3.4/tcp/80/http/http-path/a%2Fb", "http"},
		// TLS with a server name between tls and http
		{"/ip4/1.2.3.4/tcp/443/tls/sni/pub.example.net/http", "https"},
		{"/dns/example.com/tcp/443/tls/sni/example.com/http/http-path/x", "https"},
	} {
		m, err := multiaddr.NewMultiaddr(c.ma)
		verif_Assume(err == nil)
		u, uerr := ToURL(m)
		verif_Reach("converted")
		verif_Assert(uerr == nil && u.Scheme == c.scheme, "tls/http and https map to https, http to http")
	}
	m, err := multiaddr.NewMultiaddr("/ip4/1.2.3.4/tcp/80/http/http-path/a%2Fb")
	verif_Assume(err == nil)
	u, uerr := ToURL(m)
	verif_Assert(uerr == nil && u.Path == "a/b" && u.Host == "1.2.3.4:80", "an http-path component becomes the URL path")
	// hosts as publishers advertise them: every DNS flavour with and without a port
	// (only raw IPv6 addresses are bracketed)
	for _, c := range []struct{ ma, host string }{
		{"/dns/example.com/https", "example.com"},
		{"/dns4/example.com/https", "example.com"},
		{"/dns6/example.com/https", "example.com"},
		{"/dns6/example.com/tcp/8443/https", "example.com:8443"},
		{"/dns4/example.com/tcp/80/http", "example.com:80"},
		{"/ip6/2001:db8::1/tcp/443/https", "[2001:db8::1]:443"},
		{"/ip6/2001:db8::1/https", "[2001:db8::1]"},
		{"/ip4/1.2.3.4/http", "1.2.3.4"},
	} {
		m, err := multiaddr.NewMultiaddr(c.ma)
		verif_Assume(err == nil)
		u, uerr := ToURL(m)
		verif_Assert(uerr == nil && u.Host == c.host, "the URL names the host and port the address names")
	}
}

// C20 (legacy form): a multiaddr that carries the path in the old 'httpath'
// component — written by legacy publishers with url.PathEscape — converts to
// a URL with exactly the path that was advertised, for every path byte.
func VerifC20_LegacyHTTPath() {
	n := verif_Choose("pathLen", 0, 1+verif_Tier())
	p := ""
	if n > 0 {
		p = verif_Str("path", n)
	} else {
		p = []string{"a+b", "a b/c d", "a%20b", "x/y+z?q=1"}[verif_Choose("concretePath", 0, 3)]
	}
	base, err := multiaddr.NewMultiaddr("/ip4/1.2.3.4/tcp/80/http")
	verif_Assume(err == nil)
	// (the package registers the legacy protocol when it is initialised; the engine
	// initialises packages on first use of their variables)
	comp, cerr := multiaddr.NewComponent(oldProtoHTTPath.Name, url.PathEscape(p))
	verif_Assert(cerr == nil, "an escaped path is a valid legacy httpath component")
	if cerr != nil {
		return
	}
	u, uerr := ToURL(base.Encapsulate(comp))
	verif_Reach("converted")
	verif_Assert(uerr == nil && u.Scheme == "http" && u.Host == "1.2.3.4:80", "scheme and host are taken from the address")
	verif_Assert(uerr != nil || u.Path == p, "the legacy httpath component is un-escaped to the path the publisher advertised")
}
