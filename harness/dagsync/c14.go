package dagsync

import (
	"context"

	"github.com/ipfs/go-cid"
)

// C14: every notification reaches every registered listener once, in order; a
// stalled listener delays nobody; closing the event stream closes every
// listener after what was queued for it.
func VerifC14_Delivery() {
	chain := c01chain(3) // newest first: c1, c2, c3
	v := newVSub(chain[1:], -1, 0, 0, true)
	go v.s.distributeEvents()

	early, _ := v.s.OnSyncFinished() // registered before any sync
	stalled, _ := v.s.OnSyncFinished()
	_ = stalled // never read: must not delay syncs or other listeners

	type seen struct {
		c     cid.Cid
		count int
	}
	lateDone := make(chan []seen, 1)
	registered := make(chan struct{}, 1)
	go func() {
		// a listener that registers while syncs are running
		ch, cancel := v.s.OnSyncFinished()
		registered <- struct{}{}
		var got []seen
		if verif_Bool("lateListenerCancels") {
			cancel()
			for e := range ch {
				got = append(got, seen{e.Cid, e.Count})
			}
			cancel() // idempotent
			lateDone <- got
			return
		}
		for e := range ch {
			verif_Assert(v.latest() == e.Cid || v.latest() == chain[0], "latest-synced is stored before the notification is sent")
			got = append(got, seen{e.Cid, e.Count})
		}
		lateDone <- got
	}()

	// two syncs of the same publisher, one after the other
	done := make(chan struct{}, 1)
	go func() {
		got, err := v.s.SyncAdChain(context.Background(), v.peer)
		verif_Assert(err == nil && got == chain[1], "first sync succeeds")
		v.sy.chain = chain // the publisher publishes a new head
		got, err = v.s.SyncAdChain(context.Background(), v.peer)
		verif_Assert(err == nil && got == chain[0], "second sync succeeds")
		done <- struct{}{}
	}()

	// the early listener reads slowly
	e1 := <-early
	verif_Yield()
	e2 := <-early
	verif_Reach("early listener got both")
	verif_Assert(e1.Cid == chain[1] && e1.Count == 2 && e1.PeerID == v.peer.ID && e1.Err == nil, "first notification: CID, publisher and block count of the first sync")
	verif_Assert(e2.Cid == chain[0] && e2.Count == 1 && e2.PeerID == v.peer.ID && e2.Err == nil, "second notification follows in completion order")
	<-done
	<-registered // (registration racing with shutdown is C15's subject)
	// shutdown tail: closing is signalled, then the event stream is closed
	close(v.s.closing)
	close(v.s.inEvents)
	_, more := <-early
	verif_Assert(!more, "closing the subscriber closes a listener's channel after the queued notifications, with nothing extra")
	late := <-lateDone
	verif_Reach("late listener finished")
	// the late listener saw a suffix of the notifications, in order, each at most once
	verif_Assert(len(late) <= 2, "no notification is delivered twice")
	if len(late) == 2 {
		verif_Assert(late[0].c == chain[1] && late[1].c == chain[0], "notifications arrive in completion order")
	}
	if len(late) == 1 {
		verif_Assert(late[0].c == chain[0] || late[0].c == chain[1], "a listener registered later sees a suffix of the notifications")
	}
	n := 0
	for range stalled {
		n++
	}
	verif_Assert(n == 2, "the stalled listener still has every notification queued when the stream closes")
}

// C14: cancelling one listener (not the most recently registered one) leaves
// the others registered; a listener that cancels still gets what was queued
// for it before its channel closes.
func VerifC14_CancelKeepsOthers() {
	chain := c01chain(3)
	v := newVSub(chain[2:], -1, 0, 0, true)
	go v.s.distributeEvents()
	first, cancelFirst := v.s.OnSyncFinished()
	second, _ := v.s.OnSyncFinished()
	third, cancelThird := v.s.OnSyncFinished()
	_ = third

	sync := func(head int) {
		v.sy.chain = chain[head:]
		got, err := v.s.SyncAdChain(context.Background(), v.peer)
		verif_Assert(err == nil && got == chain[head], "sync succeeds")
	}
	sync(2)
	// once the second listener has the first notification the distributor is forwarding it to
	// every listener; a cancellation is handled only after that
	e0 := <-second
	verif_Assert(e0.Cid == chain[2], "first notification")
	// the stalled third listener cancels without having read: what was queued must still be delivered
	cancelThird()
	n3 := 0
	for e := range third {
		verif_Assert(e.Cid == chain[2], "the queued notification is the first sync's")
		n3++
	}
	verif_Assert(n3 == 1, "cancelling closes the channel after the notifications already queued, losing none")
	// the first-registered listener cancels; the second must keep receiving
	which := verif_Choose("cancelledListener", 0, 1)
	if which == 0 {
		cancelFirst()
	}
	sync(1)
	sync(0)
	close(v.s.closing)
	close(v.s.inEvents)
	got2 := []cid.Cid{e0.Cid}
	for e := range second {
		got2 = append(got2, e.Cid)
	}
	verif_Reach("second listener drained")
	verif_Assert(len(got2) == 3 && got2[0] == chain[2] && got2[1] == chain[1] && got2[2] == chain[0], "a listener that stays registered receives every notification once, in order, whatever other listeners do")
	n1 := 0
	for range first {
		n1++
	}
	if which == 0 {
		verif_Assert(n1 == 1, "the cancelled listener got what was sent before it cancelled and nothing after")
	} else {
		verif_Assert(n1 == 3, "the listener that did not cancel got everything")
	}
}

// C14 (a listener that never reads delays nobody, however many notifications
// pile up): 40 notifications with one stalled and one reading listener; every
// one reaches the reader in order, the syncs' sender is never held up, and the
// stalled listener still gets all of them, in order, once it starts reading.
func VerifC14_StalledListenerManyEvents() {
	// (well past any small fixed queue size: 16, 64, 128)
	n := 150 + 150*verif_Tier()
	chain := c01chain(1)
	v := newVSub(chain, -1, 0, 0, true)
	go v.s.distributeEvents()
	stalled, cancelStalled := v.s.OnSyncFinished()
	reader, _ := v.s.OnSyncFinished()
	for i := 0; i < n; i++ {
		// what sendSyncFinishedEvent does at the end of a sync
		v.s.inEvents <- SyncFinished{Cid: chain[0], PeerID: v.peer.ID, Count: i + 1}
		e := <-reader // (a distributor held up by the stalled listener is reported as a hang)
		verif_Assert(e.Count == i+1, "the reading listener receives every notification, in order, while another listener does not read")
	}
	verif_Reach("all delivered")
	cancelStalled() // closes the stalled listener's channel after the queued notifications
	k := 0
	for e := range stalled {
		k++
		verif_Assert(e.Count == k, "the stalled listener finds every notification queued, in order")
	}
	verif_Assert(k == n, "no notification was dropped for the listener that read late")
}

// C14 (the notification carries the block count of the whole sync): a sync
// fetched in several segments still reports the total number of blocks.
func VerifC14_CountAcrossSegments() {
	n := verif_Choose("chainLen", 2, 4)
	chain := c01chain(n)
	seg := c01int("segDepthLimit", 1, int64(n))
	v := newVSub(chain, -1, 0, seg, true)
	go v.s.distributeEvents()
	lis, _ := v.s.OnSyncFinished()
	got, err := v.s.SyncAdChain(context.Background(), v.peer)
	verif_Assert(err == nil && got == chain[0], "sync succeeds")
	e := <-lis
	verif_Reach("notified")
	verif_Assert(e.Cid == chain[0] && e.PeerID == v.peer.ID && e.Err == nil, "the notification names the synced head and publisher")
	verif_Assert(e.Count == n, "the notification carries the block count of the whole sync, however many segments it took")
	verif_Assert(len(v.log) == n, "every block was reported once")
}

// C14 + C15: an announce-triggered sync that Close cancels is a failed
// announce-triggered sync: exactly one notification carrying the error and the
// announced CID reaches every registered listener before its channel is closed.
func VerifC14_CancelledAnnouncedSyncIsNotified() {
	chain := c01chain(2)
	v := newLiveSub(chain, 0)
	v.sy.gate = make(chan struct{}) // the publisher stalls: the sync waits until cancelled
	l1, _ := v.s.OnSyncFinished()
	l2, _ := v.s.OnSyncFinished()
	verif_Assume(v.s.Announce(context.Background(), chain[0], v.peer) == nil)
	verif_Quiesce() // the announce-triggered sync is in flight
	verif_Assert(v.s.Close() == nil, "Close succeeds while an announce-triggered sync is in flight")
	verif_Reach("closed")
	for _, l := range []<-chan SyncFinished{l1, l2} {
		n := 0
		for e := range l {
			n++
			verif_Assert(e.Err != nil && e.Cid == chain[0] && e.PeerID == v.peer.ID && e.Count == 0, "the notification of the cancelled sync carries the error, the announced CID and the publisher")
		}
		verif_Assert(n == 1, "each listener gets exactly one notification for the announce-triggered sync that Close cancelled, before its channel closes")
	}
	verif_Assert(v.latest() == cid.Undef, "the cancelled sync records nothing")
}

// C14: every completed sync that updates the latest-synced advertisement is
// notified — also when it ends on the same head as the previous notified sync
// of that publisher (the caller rolled the latest-synced value back with
// SetLatestSync to ingest the last advertisements again): second notification,
// same CID, its own block count, to every listener.
func VerifC14_ResyncAfterRollbackIsNotified() {
	chain := c01chain(3) // newest first
	v := newVSub(chain, -1, 0, 0, true)
	go v.s.distributeEvents()
	fast, _ := v.s.OnSyncFinished()
	late, _ := v.s.OnSyncFinished() // read only at the end
	got, err := v.s.SyncAdChain(context.Background(), v.peer)
	verif_Assert(err == nil && got == chain[0], "first sync succeeds")
	e1 := <-fast
	verif_Assert(e1.Err == nil && e1.Cid == chain[0] && e1.Count == 3 && e1.PeerID == v.peer.ID, "first notification: head, publisher and block count of the first sync")
	back := verif_Choose("rolledBackTo", 1, 2)
	verif_Assert(v.s.SetLatestSync(v.peer.ID, chain[back]) == nil, "the latest-synced advertisement can be rolled back")
	got, err = v.s.SyncAdChain(context.Background(), v.peer)
	verif_Assert(err == nil && got == chain[0], "second sync succeeds")
	verif_Assert(v.latest() == chain[0], "the second sync moved the latest-synced advertisement to the head again")
	e2 := <-fast // (a missing notification is reported as a hang)
	verif_Reach("second notification")
	verif_Assert(e2.Err == nil && e2.Cid == chain[0] && e2.Count == back && e2.PeerID == v.peer.ID, "a sync that ends on the same head as the previous one is notified with its own block count")
	close(v.s.closing)
	close(v.s.inEvents)
	n := 0
	for e := range late {
		verif_Assert(e.Cid == chain[0], "the late listener gets the same notifications")
		n++
	}
	verif_Assert(n == 2, "every listener receives both notifications")
}

// C14 / C15 (listener registration racing with or following Close): a listener
// registered after the subscriber was closed gets a channel that is closed —
// a reader ranging over it returns instead of blocking for ever — and its
// cancel function is harmless.
func VerifC14_ListenerRegisteredAfterClose() {
	chain := c01chain(1)
	v := newLiveSub(chain, 0)
	before, _ := v.s.OnSyncFinished()
	verif_Assert(v.s.Close() == nil, "Close succeeds")
	for range before {
		verif_Assert(false, "no notification without a sync")
	}
	n := verif_Choose("listenersAfterClose", 1, 2)
	for i := 0; i < n; i++ {
		late, cancel := v.s.OnSyncFinished()
		for range late { // (a channel nobody closes is reported as a hang)
			verif_Assert(false, "no notification after Close")
		}
		verif_Reach("late listener's channel is closed")
		cancel()
		cancel()
	}
}
