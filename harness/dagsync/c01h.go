package dagsync

import (
	"context"
	"crypto/rand"
	"net/http"

	"github.com/ipfs/go-cid"
	"github.com/ipld/go-ipld-prime"
	"github.com/ipld/go-ipld-prime/codec/dagjson"
	"github.com/ipld/go-ipld-prime/fluent"
	cidlink "github.com/ipld/go-ipld-prime/linking/cid"
	"github.com/ipld/go-ipld-prime/multicodec"
	basicnode "github.com/ipld/go-ipld-prime/node/basic"
	"github.com/ipld/go-ipld-prime/traversal/selector/builder"
	"github.com/ipni/go-libipni/dagsync/ipnisync"
	"github.com/libp2p/go-libp2p/core/crypto"
	"github.com/libp2p/go-libp2p/core/peer"
	"github.com/multiformats/go-multiaddr"
	"github.com/multiformats/go-multihash"
)

type phRec struct {
	hdr    http.Header
	status int
	body   []byte
}

func (r *phRec) Header() http.Header         { return r.hdr }
func (r *phRec) WriteHeader(code int)        { r.status = code }
func (r *phRec) Write(b []byte) (int, error) { r.body = append(r.body, b...); return len(b), nil }

// C01 + C03, publisher to subscriber: the library's own Publisher (built by
// NewPublisher with a head topic and an optional handler path, not started:
// its ServeHTTP is the server) serves a dag-json advertisement chain; the real
// Subscriber syncs it through the real sync client, traversal and dag-json
// codec. The head the publisher signs for its root verifies for a client
// expecting that publisher, the chain is fetched block by block from what the
// publisher serves, and the requested segment is reported once, in order.
func VerifC01_PublisherToSubscriber() {
	n := 3
	multicodec.RegisterEncoder(0x0129, dagjson.Encode)
	multicodec.RegisterDecoder(0x0129, dagjson.Decode)
	lp := cidlink.LinkPrototype{Prefix: cid.Prefix{Version: 1, Codec: 0x0129, MhType: multihash.SHA2_256, MhLength: 16}}
	pubStore := &fsStore{m: map[string][]byte{}}
	publs := fsLsys(pubStore)
	chain := make([]cid.Cid, n)
	var prev ipld.Link
	for i := n - 1; i >= 0; i-- {
		p := prev
		nd := fluent.MustBuildMap(basicnode.Prototype.Map, 2, func(na fluent.MapAssembler) {
			na.AssembleEntry("ContextID").AssignString(string(rune('a' + i)))
			if p != nil {
				na.AssembleEntry("PreviousID").AssignLink(p)
			}
		})
		l, err := publs.Store(ipld.LinkContext{}, lp, nd)
		verif_Assume(err == nil)
		chain[i] = l.(cidlink.Link).Cid
		prev = l
	}
	priv, pubk, kerr := crypto.GenerateEd25519Key(rand.Reader)
	verif_Assume(kerr == nil)
	pubID, kerr := peer.IDFromPublicKey(pubk)
	verif_Assume(kerr == nil)

	handlerPath := []string{"", "pub"}[verif_Choose("handlerPath", 0, 1)]
	opts := []ipnisync.Option{ipnisync.WithHeadTopic("/indexer/ingest/model"), ipnisync.WithStartServer(false)}
	if handlerPath != "" {
		opts = append(opts, ipnisync.WithHandlerPath(handlerPath))
	}
	pub, err := ipnisync.NewPublisher(publs, priv, opts...)
	verif_Assert(err == nil && pub != nil, "a publisher that is not started is created from its options")
	if pub == nil {
		return
	}
	verif_Assert(pub.ID() == pubID, "the publisher's ID is the ID of its key")
	rootAt := verif_Choose("publishedRoot", 0, 1) // the publisher was given the newest or the second advertisement as root
	pub.SetRoot(chain[rootAt])

	requests := 0
	oldRT := http.DefaultTransport
	http.DefaultTransport = &fsRT{fn: func(req *http.Request) (*http.Response, error) {
		requests++
		rec := &phRec{hdr: http.Header{}, status: 200}
		pub.ServeHTTP(rec, req)
		return fsResp(rec.status, rec.body), nil
	}}
	defer func() { http.DefaultTransport = oldRT }()

	st := &fsStore{m: map[string][]byte{}}
	v := newVSub(chain, -1, 0, -1, true)
	v.peer = peer.AddrInfo{ID: pubID}
	ssb := builder.NewSelectorSpecBuilder(basicnode.Prototype.Any)
	v.s.adsSelectorSeq = ssb.ExploreFields(func(efsb builder.ExploreFieldsSpecBuilder) {
		efsb.Insert("PreviousID", ssb.ExploreRecursiveEdge())
	}).Node()
	v.s.ipniSync = ipnisync.NewSync(fsLsys(st), v.dispatch)
	v.s.getOrCreateHandler(pubID).syncer = nil
	as := "/ip4/127.0.0.1/tcp/80/http"
	if handlerPath != "" {
		as += "/http-path/" + handlerPath
	}
	addr, aerr := multiaddr.NewMultiaddr(as)
	verif_Assume(aerr == nil)
	pinfo := peer.AddrInfo{ID: pubID, Addrs: []multiaddr.Multiaddr{addr}}

	got, serr := v.s.SyncAdChain(context.Background(), pinfo)
	verif_Reach("synced")
	verif_Assert(serr == nil, "the subscriber syncs what the library's publisher serves")
	verif_Assert(got == chain[rootAt], "the head obtained is the root the publisher was given")
	want := n - rootAt
	verif_Assert(len(v.log) == want, "every advertisement from the published root to the end of the chain is reported once")
	for k := 0; k < want && k < len(v.log); k++ {
		verif_Assert(v.log[k] == chain[rootAt+k], "newest to oldest")
	}
	for i := rootAt; i < n; i++ {
		b, ok := st.m[fsKey(chain[i])]
		verif_Assert(ok && string(b) == string(pubStore.m[fsKey(chain[i])]), "what is stored is what the publisher holds")
	}
	verif_Assert(v.latest() == chain[rootAt], "latest-synced is the published root")
	verif_Assert(requests == 1+want, "one head query and one request per block")
}
