package dagsync

import (
	"context"
	"errors"
	"sync"
	"time"

	"github.com/ipfs/go-cid"
	"github.com/ipld/go-ipld-prime"
	cidlink "github.com/ipld/go-ipld-prime/linking/cid"
	basicnode "github.com/ipld/go-ipld-prime/node/basic"
	"github.com/ipld/go-ipld-prime/traversal/selector"
	"github.com/ipld/go-ipld-prime/traversal/selector/builder"
	"github.com/libp2p/go-libp2p/core/host"
	"github.com/libp2p/go-libp2p/core/peer"
	"github.com/libp2p/go-libp2p/core/peerstore"
	"github.com/multiformats/go-multiaddr"
)

// ---- environment stubs (plain Go: identical in the symbolic and native runs) ----

type vHost struct{ host.Host }

func (vHost) Peerstore() peerstore.Peerstore { return nil }
func (vHost) ID() peer.ID                    { return "subscriber-host" }

type vPeerstore struct{ peerstore.Peerstore }

func (vPeerstore) Addrs(peer.ID) []multiaddr.Multiaddr                    { return nil }
func (vPeerstore) AddAddrs(peer.ID, []multiaddr.Multiaddr, time.Duration) {}
func (vPeerstore) Close() error                                           { return nil }

// vCid(i): distinct short CIDs (CIDv1, raw, identity multihash of byte i)
func vCid(i int) cid.Cid {
	c, err := cid.Cast([]byte{0x01, 0x55, 0x00, 0x01, byte(i)})
	verif_Assume(err == nil)
	return c
}

type vReq struct {
	start cid.Cid
	limit selector.RecursionLimit
	stop  cid.Cid
}

// vSyncer is the model syncer (DESIGN.md B.1): go-ipld-prime selector
// semantics over a linear chain. chain[0] is the newest block.
type vSyncer struct {
	global  []int // shared [running, max running] across syncers (for C08)
	chain   []cid.Cid
	peerID  peer.ID
	hook    func(peer.ID, cid.Cid) // the subscriber's scoped block hook dispatcher
	reqs    []vReq
	headErr error
	// headQueries: number of GetHead calls (a sync that queried the head was admitted and is running)
	headQueries int
	faultErr    error // the error an injected fault returns (nil: errModelFault)
	failSync    int   // fail the k-th Sync call (1-based); 0 = never
	failAt      int   // within the failing call: fail when about to visit the j-th block (1-based)
	syncs       int
	noHead      bool
	yield       bool
	gate        chan struct{} // if set, Sync waits here until the gate opens or its context is cancelled (a stalled publisher)
	active      int           // number of Sync calls in progress (for C08)
	maxActive   int
}

func (m *vSyncer) pos(c cid.Cid) int {
	for i, x := range m.chain {
		if x == c {
			return i
		}
	}
	return -1
}

func (m *vSyncer) GetHead(ctx context.Context) (cid.Cid, error) {
	unlock := ghostLock()
	m.headQueries++
	unlock()
	if m.yield {
		verif_Yield() // (a head query takes time: other goroutines may run meanwhile)
	}
	if m.headErr != nil {
		return cid.Undef, m.headErr
	}
	if m.noHead || len(m.chain) == 0 {
		return cid.Undef, nil
	}
	return m.chain[0], nil
}

func (m *vSyncer) SameAddrs([]multiaddr.Multiaddr) bool { return true }

var errModelFault = errors.New("model: injected transport fault")

// vTimeoutErr: the error an HTTP client reports when its own time limit expires
// on a stalled response (net/http's timeout error matches context.DeadlineExceeded)
type vTimeoutErr struct{}

func (vTimeoutErr) Error() string   { return "model: Client.Timeout exceeded while awaiting headers" }
func (vTimeoutErr) Timeout() bool   { return true }
func (vTimeoutErr) Is(e error) bool { return e == context.DeadlineExceeded }

var errModelNotFound = errors.New("model: content not found")

func (m *vSyncer) Sync(ctx context.Context, start cid.Cid, sel ipld.Node) error {
	unlock := ghostLock()
	m.syncs++
	m.active++
	if m.active > m.maxActive {
		m.maxActive = m.active
	}
	if m.global != nil {
		m.global[0]++
		if m.global[0] > m.global[1] {
			m.global[1] = m.global[0]
		}
	}
	unlock()
	defer func() {
		unlock := ghostLock()
		m.active--
		if m.global != nil {
			m.global[0]--
		}
		unlock()
	}()
	limit, ok := getRecursionLimit(sel)
	if !ok {
		return errors.New("model: selector has no recursion limit")
	}
	stop := cid.Undef
	if l, ok := getStopNode(sel); ok && l != nil {
		stop = l.(cidlink.Link).Cid
	}
	unlock = ghostLock()
	m.reqs = append(m.reqs, vReq{start, limit, stop})
	unlock()
	if ctx.Err() != nil {
		return ctx.Err()
	}
	if m.gate != nil {
		select {
		case <-m.gate:
		case <-ctx.Done():
			return ctx.Err()
		}
	}
	p := m.pos(start)
	if p < 0 {
		return errModelNotFound
	}
	var visited []cid.Cid
	for i := p; i < len(m.chain); i++ {
		// the start block is loaded directly and therefore always visited; the
		// stop condition and the depth limit apply to links explored from it
		if i > p && m.chain[i] == stop {
			break // the selector stops before a link equal to the stop link
		}
		if i > p && limit.Mode() == selector.RecursionLimit_Depth && int64(len(visited)) >= limit.Depth() {
			break
		}
		if m.failSync == m.syncs && m.failAt == len(visited)+1 {
			if m.faultErr != nil {
				return m.faultErr
			}
			return errModelFault
		}
		visited = append(visited, m.chain[i])
		if m.yield {
			verif_Yield()
		}
	}
	if m.failSync == m.syncs && m.failAt > len(visited) {
		// fault position beyond this walk: no fault
	}
	// hooks are replayed in traversal order after the whole walk succeeded
	if m.hook != nil {
		for _, c := range visited {
			if m.yield {
				verif_Yield()
			}
			m.hook(m.peerID, c)
		}
	}
	return nil
}

// vSub builds a Subscriber by hand around the model syncer: no libp2p host,
// no receiver, no background goroutines.
type vSub struct {
	mu         sync.Mutex // native runs only: the ghost state below is touched from several goroutines
	dispatch   func(peer.ID, cid.Cid)
	others     []*vSyncer
	s          *Subscriber
	sy         *vSyncer
	peer       peer.AddrInfo
	log        []cid.Cid // blocks handed to the user block hook, in order
	failHookAt int       // user hook signals FailSync at its k-th call (0 = never)
	hooks      int
}

func newVSub(chain []cid.Cid, adsDepthLimit, firstSyncDepth, segDepthLimit int64, withHook bool) *vSub {
	return newVSubEnts(chain, adsDepthLimit, firstSyncDepth, segDepthLimit, 0, withHook)
}

func newVSubEnts(chain []cid.Cid, adsDepthLimit, firstSyncDepth, segDepthLimit, entriesDepthLimit int64, withHook bool) *vSub {
	v := &vSub{}
	mu, scoped, dispatch := wrapBlockHook()
	ssb := builder.NewSelectorSpecBuilder(basicnode.Prototype.Any)
	pid := vPeerID("publisher-1")
	v.dispatch = dispatch
	v.sy = &vSyncer{chain: chain, peerID: pid, hook: dispatch}
	s := &Subscriber{
		host:                 vHost{},
		closing:              make(chan struct{}),
		handlers:             make(map[peer.ID]*handler),
		inEvents:             make(chan SyncFinished, 1),
		addEventChan:         make(chan chan<- SyncFinished),
		rmEventChan:          make(chan chan<- SyncFinished),
		httpPeerstore:        vPeerstore{},
		scopedBlockHookMutex: mu,
		scopedBlockHook:      scoped,
		latestSyncHandler:    latestSyncHandler{},
		adsDepthLimit:        recursionLimit(adsDepthLimit),
		firstSyncDepth:       firstSyncDepth,
		segDepthLimit:        segDepthLimit,
		adsSelectorSeq:       ssb.ExploreAll(ssb.ExploreRecursiveEdge()).Node(),
		selectorOne:          ssb.ExploreRecursive(selector.RecursionLimitDepth(0), ssb.ExploreAll(ssb.ExploreRecursiveEdge())).Node(),
		selectorAll:          ssb.ExploreRecursive(selector.RecursionLimitNone(), ssb.ExploreAll(ssb.ExploreRecursiveEdge())).Node(),
		selectorEnts: ssb.ExploreRecursive(recursionLimit(entriesDepthLimit),
			ssb.ExploreFields(func(efsb builder.ExploreFieldsSpecBuilder) {
				efsb.Insert("Next", ssb.ExploreRecursiveEdge())
			})).Node(),
	}
	if withHook {
		s.generalBlockHook = func(p peer.ID, c cid.Cid, a SegmentSyncActions) {
			if !verif_Symbolic() {
				v.mu.Lock()
				defer v.mu.Unlock()
			}
			v.hooks++
			v.log = append(v.log, c)
			if v.failHookAt == v.hooks {
				a.FailSync(errModelFault)
				return
			}
			next := cid.Undef
			for _, sy := range append([]*vSyncer{v.sy}, v.others...) {
				if i := sy.pos(c); i >= 0 && i+1 < len(sy.chain) {
					next = sy.chain[i+1]
				}
			}
			a.SetNextSyncCid(next)
		}
	}
	v.s = s
	v.peer = peer.AddrInfo{ID: pid}
	hnd := s.getOrCreateHandler(pid)
	hnd.syncer = v.sy
	return v
}

// drain returns the events waiting in the subscriber's event channel.
func (v *vSub) drain() []SyncFinished {
	var out []SyncFinished
	for {
		select {
		case e := <-v.s.inEvents:
			out = append(out, e)
		default:
			return out
		}
	}
}

func (v *vSub) latest() cid.Cid {
	l := v.s.GetLatestSync(v.peer.ID)
	if l == nil {
		return cid.Undef
	}
	return l.(cidlink.Link).Cid
}

// addPublisher registers a second publisher with its own model syncer.
func (v *vSub) addPublisher(pid peer.ID, chain []cid.Cid) *vSyncer {
	sy := &vSyncer{chain: chain, peerID: pid, hook: v.dispatch}
	v.others = append(v.others, sy)
	hnd := v.s.getOrCreateHandler(pid)
	hnd.syncer = sy
	return sy
}

// ghostLock serialises harness-level bookkeeping in native runs (the symbolic
// engine runs one goroutine at a time, and a lock there would only add
// scheduling points).
var ghostMu sync.Mutex

func ghostLock() func() {
	if verif_Symbolic() {
		return func() {}
	}
	ghostMu.Lock()
	return ghostMu.Unlock
}

// vPeerID: a valid peer ID (identity multihash of the name), so that it can
// also be carried in a /p2p address component.
func vPeerID(name string) peer.ID {
	return peer.ID(append([]byte{0x00, byte(len(name))}, name...))
}

// vP2PAddr: /ip4/1.2.3.4/tcp/80/p2p/<id>
func vP2PAddr(id peer.ID) multiaddr.Multiaddr {
	raw := []byte{0x04, 1, 2, 3, 4, 0x06, 0, 80, 0xa5, 0x03, byte(len(id))}
	raw = append(raw, id...)
	m, err := multiaddr.NewMultiaddrBytes(raw)
	verif_Assume(err == nil)
	return m
}
