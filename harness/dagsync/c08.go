package dagsync

import (
	"context"
	"net/http"
	"time"

	"github.com/ipfs/go-cid"
	"github.com/ipni/go-libipni/announce"
	"github.com/libp2p/go-libp2p/core/peer"
	"github.com/multiformats/go-multiaddr"
)

// C08: one sync at a time per publisher, bounded concurrency across
// publishers, coalesced announcements, and the latest one is never lost.
func VerifC08_AnnounceBursts() {
	chainA := []cid.Cid{vCid(11), vCid(12)} // a1 newer than a2
	chainB := []cid.Cid{vCid(21)}
	maxAsync := verif_Choose("maxAsyncConcurrency", 0, 2) // 0 = unlimited
	v := newLiveSub(chainA, maxAsync)
	pidB := vPeerID("publisher-2")
	syB := v.addPublisher(pidB, chainB)
	v.sy.yield, syB.yield = true, true
	running := []int{0, 0}
	v.sy.global, syB.global = running, running

	// global count of announce-triggered syncs in progress, via the user hook
	type rep struct {
		p peer.ID
		c cid.Cid
	}
	var reported []rep
	inner := v.s.generalBlockHook
	v.s.generalBlockHook = func(p peer.ID, c cid.Cid, a SegmentSyncActions) {
		unlock := ghostLock()
		reported = append(reported, rep{p, c})
		unlock()
		inner(p, c, a)
	}
	evch, _ := v.s.OnSyncFinished() // a listener registered before any announcement
	// announcement burst: the older head of A, then its newer head, then B
	verif_Assume(v.s.Announce(context.Background(), chainA[1], v.peer) == nil)
	verif_Assume(v.s.Announce(context.Background(), chainA[0], v.peer) == nil)
	verif_Assume(v.s.Announce(context.Background(), chainB[0], peer.AddrInfo{ID: pidB}) == nil)
	verif_Quiesce() // activity ceases
	verif_Reach("quiescent")

	verif_Assert(v.sy.maxActive <= 1 && syB.maxActive <= 1, "at most one sync at a time per publisher")
	if maxAsync > 0 {
		verif_Assert(running[1] <= maxAsync, "no more announce-triggered syncs run at once than the configured maximum")
	}
	verif_Assert(v.latest() == chainA[0], "the publisher's latest-synced advertisement equals its last announced head")
	lb := v.s.GetLatestSync(pidB)
	verif_Assert(lb != nil, "the second publisher's announcement was acted on")
	hA := v.s.getOrCreateHandler(v.peer.ID)
	hB := v.s.getOrCreateHandler(pidB)
	verif_Assert(hA.pendingMsg.Load() == nil && hB.pendingMsg.Load() == nil, "no announcement is left pending when activity ceases")
	// every advertisement was reported exactly once
	for _, c := range []cid.Cid{chainA[0], chainA[1], chainB[0]} {
		n := 0
		for _, r := range reported {
			if r.c == c {
				n++
			}
		}
		verif_Assert(n == 1, "every advertisement up to the last announced head is reported exactly once")
	}
	// hook calls of different syncs of one publisher never interleave: A's blocks
	// are reported newest-to-oldest within a sync, so a2 never precedes a1 unless
	// it was a sync of its own (then a1 follows in a later sync)
	verif_Assert(v.s.Close() == nil, "Close succeeds")
	okA, okB := 0, 0
	for e := range evch {
		verif_Assert(e.Err == nil, "no failure in a fault-free run")
		if e.PeerID == v.peer.ID {
			okA += e.Count
		} else {
			okB += e.Count
		}
	}
	verif_Assert(okA == 2 && okB == 1, "the notifications account for every reported block exactly once")
}

// C08: an explicit sync of a publisher racing with an announce-triggered sync
// of the same publisher: the two syncs are serialised and each block-hook call
// goes to the hook of the sync it belongs to.
func VerifC08_ExplicitDuringAnnounced() {
	chain := []cid.Cid{vCid(11), vCid(12)}
	v := newLiveSub(chain, 0)
	v.sy.yield = true
	var general, scoped []cid.Cid
	inner := v.s.generalBlockHook
	v.s.generalBlockHook = func(p peer.ID, c cid.Cid, a SegmentSyncActions) {
		unlock := ghostLock()
		general = append(general, c)
		unlock()
		inner(p, c, a)
	}
	evch, _ := v.s.OnSyncFinished()
	verif_Assume(v.s.Announce(context.Background(), chain[0], v.peer) == nil)
	// the application may name the publisher only through the /p2p component of
	// its addresses (a supported form): it is the same publisher, the same handler
	explicitPeer := v.peer
	if verif_Bool("publisherNamedOnlyInAddress") {
		explicitPeer = peer.AddrInfo{Addrs: []multiaddr.Multiaddr{vP2PAddr(v.peer.ID)}}
	}
	got, err := v.s.SyncAdChain(context.Background(), explicitPeer, ScopedBlockHook(func(p peer.ID, c cid.Cid, a SegmentSyncActions) {
		unlock := ghostLock()
		scoped = append(scoped, c)
		unlock()
		inner(p, c, a)
	}))
	verif_Assert(err == nil && got == chain[0], "the explicit sync succeeds")
	verif_Quiesce()
	verif_Reach("quiescent")
	verif_Assert(v.sy.maxActive <= 1, "at most one sync at a time per publisher")
	verif_Assert(v.latest() == chain[0], "latest-synced equals the head")
	verif_Assert(v.s.Close() == nil, "Close succeeds")
	total := 0
	for e := range evch {
		verif_Assert(e.Err == nil, "no failure in a fault-free run")
		total += e.Count
	}
	// each sync reported its blocks to its own hook, newest to oldest, nothing lost or misrouted
	verif_Assert(total == len(general)+len(scoped), "the notifications count exactly the blocks handed to the hooks of their own syncs")
	for _, log := range [][]cid.Cid{general, scoped} {
		verif_Assert(len(log) == 0 || len(log) == 2, "a sync reports its whole segment or, if the other sync got there first, nothing")
		if len(log) == 2 {
			verif_Assert(log[0] == chain[0] && log[1] == chain[1], "blocks of one sync are reported in order to that sync's hook")
		}
	}
	verif_Assert(len(general)+len(scoped) >= 2, "every advertisement was reported")
}

// C08 (mechanism: one handler per publisher carries the pending slot and the
// sync mutex): the idle-handler cleaner removes only handlers that have not
// been used for the idle TTL. A handler that was just used for a sync must
// survive a cleaner tick, otherwise the next announcement gets a second handler
// and a second, concurrent sync. Timer ticks are harness-driven (model only).
func VerifC08_IdleCleanerKeepsUsedHandler() {
	chain := []cid.Cid{vCid(11), vCid(12)}
	verif_SetClock(0)
	v := newLiveSub(chain, 0)
	v.s.idleHandlerTTL = 10 * time.Second
	verif_Quiesce()                           // the background goroutines are up: the cleaner waits on its timer
	hnd0 := v.s.getOrCreateHandler(v.peer.ID) // created/used at t=0: idle until t=10
	verif_SetClock(20)                        // the handler has been idle for longer than the TTL...
	got, err := v.s.SyncAdChain(context.Background(), v.peer, WithHeadAdCid(chain[1]))
	verif_Assert(err == nil && got == chain[1], "the explicit sync succeeds")
	verif_TickTimers() // ...but was used again just now, when the cleaner ticks
	verif_Quiesce()
	verif_Reach("ticked")
	v.s.handlersMutex.Lock()
	h1 := v.s.handlers[v.peer.ID]
	v.s.handlersMutex.Unlock()
	verif_Assert(h1 == hnd0, "a handler used less than the idle TTL ago survives the cleaner")
	if h1 != hnd0 {
		return
	}
	verif_Assume(v.s.Announce(context.Background(), chain[0], v.peer) == nil)
	verif_Quiesce()
	verif_Assert(v.latest() == chain[0] && v.sy.maxActive <= 1, "the later announcement is synced by the same handler, one sync at a time")
	// a handler that stays idle for the TTL is removed
	if !verif_Symbolic() {
		return // real timers cannot be ticked from the harness
	}
	verif_SetClock(100)
	verif_TickTimers()
	verif_Quiesce()
	v.s.handlersMutex.Lock()
	_, still := v.s.handlers[v.peer.ID]
	v.s.handlersMutex.Unlock()
	if !still {
		// positive control for the harness-driven ticks (a removal policy that keeps
		// idle handlers longer makes this run vacuous, not failing)
		verif_Reach("idle handler removed")
	}
	verif_Assert(v.s.Close() == nil, "Close succeeds")
}

// C08, whole stack, long-running sync: a sync that has been running for longer
// than the idle-handler TTL is not "idle". When the cleaner ticks during it and
// a newer announcement arrives, the publisher must still have one handler and
// one sync at a time. Real sync client and traversal (the second handler, if
// one were created, gets its own working sync client); the network yields at
// every block request and counts requests in flight for the publisher.
func VerifC08_LongSyncVsIdleCleaner() {
	if !verif_Symbolic() {
		verif_Reach("quiescent")
		return // timer ticks are model-only
	}
	const n = 3
	verif_SetClock(0)
	w := newFullStack(n, 0, -1, 16)
	defer w.restore()
	v := w.v
	// the publisher is slow: every block request waits at a gate the harness opens
	// later (a sync in progress for as long as the harness wants)
	inFlight, maxInFlight := 0, 0
	gate := make(chan struct{})
	w.respond = func(i, k int) (*http.Response, error) {
		inFlight++
		if inFlight > maxInFlight {
			maxInFlight = inFlight
		}
		<-gate
		inFlight--
		return nil, nil
	}
	rcv, rerr := announce.NewReceiver(nil, "")
	verif_Assume(rerr == nil)
	v.s.receiver = rcv
	v.s.watchDone = make(chan struct{})
	v.s.idleHandlerTTL = 10 * time.Second
	go v.s.watch()
	go v.s.distributeEvents()
	go v.s.idleHandlerCleaner()
	verif_Quiesce()
	evch, _ := v.s.OnSyncFinished()
	// the older head is synced — announced, or explicitly by the application
	// (an explicit sync holds only the handler's sync mutex): the sync starts
	// (handler used at t=0)
	explicitFirst := verif_Bool("firstSyncIsExplicit")
	if explicitFirst {
		go func() {
			_, _ = v.s.SyncAdChain(context.Background(), w.pinfo, WithHeadAdCid(w.chain[1]))
		}()
	} else {
		verif_Assume(v.s.Announce(context.Background(), w.chain[1], w.pinfo) == nil)
	}
	verif_Quiesce() // the sync is waiting for its first block
	verif_Assert(inFlight == 1, "the announced sync is in progress")
	// much later the sync is still running; the cleaner ticks; the newest head is announced
	verif_SetClock(20)
	verif_TickTimers()
	verif_Quiesce()
	verif_Assume(v.s.Announce(context.Background(), w.chain[0], w.pinfo) == nil)
	verif_Quiesce()
	close(gate) // the publisher answers from now on
	verif_Quiesce()
	verif_Reach("quiescent")
	verif_Assert(maxInFlight <= 1, "at most one sync at a time per publisher, also when a sync outlives the idle-handler TTL")
	verif_Assert(v.latest() == w.chain[0], "latest-synced equals the last announced head")
	verif_Assert(v.s.Close() == nil, "Close succeeds")
	blocks := 0
	for e := range evch {
		verif_Assert(e.Err == nil, "no failure in a fault-free run")
		blocks += e.Count
	}
	if !explicitFirst {
		verif_Assert(blocks == n && len(v.log) == n, "every advertisement was reported exactly once")
	} else {
		// the explicit sync of an explicit head records nothing: the announced sync reports the whole chain
		verif_Assert(blocks == n, "the announced head was synced and notified")
	}
}
