package dagsync

import (
	"github.com/ipni/go-libipni/mautil"
	"github.com/libp2p/go-libp2p/core/peer"
	"github.com/multiformats/go-multiaddr"
)

// a multiaddr /ip4/1.2.3.4/tcp/80[/p2p/<identity peer ID with digest byte b>]
func c03addr(withP2P bool, b byte) multiaddr.Multiaddr {
	raw := []byte{0x04, 1, 2, 3, 4, 0x06, 0, 80}
	if withP2P {
		raw = append(raw, 0xa5, 0x03, 0x03, 0x00, 0x01, b)
	}
	m, err := multiaddr.NewMultiaddrBytes(raw)
	verif_Assume(err == nil)
	return m
}

// C03: the peer ID a caller asks to sync is the one the head is checked
// against: an ID embedded in an address never replaces it, and the subscriber
// path never ends up with an empty ID.
func VerifC03_RemoveIDFromAddrs() {
	a := peer.ID([]byte{0x00, 0x01, 0xaa})
	b := peer.ID([]byte{0x00, 0x01, 0xbb})
	given := verif_Bool("callerGivesID")
	n := verif_Choose("addresses", 0, 2)
	var addrs []multiaddr.Multiaddr
	anyP2P := false
	for i := 0; i < n; i++ {
		w := verif_Bool("addressHasP2P")
		if w {
			anyP2P = true
		}
		addrs = append(addrs, c03addr(w, 0xbb))
	}
	if verif_Bool("listHasNilEntry") {
		// callers pass address lists with nil entries; the entry points clean them first
		addrs = append([]multiaddr.Multiaddr{nil}, addrs...)
	}
	in := peer.AddrInfo{Addrs: addrs}
	if given {
		in.ID = a
	}
	in = mautil.CleanPeerAddrInfo(in) // as SyncAdChain, syncEntries and NewSyncer do first
	wantID := peer.ID("")
	if given {
		wantID = a
	}
	verif_Assert(in.ID == wantID, "cleaning the address list keeps the publisher ID the caller gave")
	out, err := removeIDFromAddrs(in)
	verif_Reach("returned")
	if err == nil {
		verif_Assert(out.ID != "", "the subscriber never proceeds with an empty publisher ID")
	}
	if given {
		verif_Assert(err == nil && out.ID == a, "a peer ID embedded in an address never replaces the publisher the caller asked to sync")
	} else if anyP2P {
		verif_Assert(err == nil && out.ID == b, "without an explicit ID the one embedded in the addresses is used")
	} else {
		verif_Assert(err != nil, "no ID at all is an error")
	}
	for _, m := range out.Addrs {
		_, pid := peer.SplitAddr(m)
		verif_Assert(pid == "", "p2p components are stripped from the addresses")
	}
}
