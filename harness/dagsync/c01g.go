package dagsync

import (
	"context"
	"errors"
	"time"

	"github.com/ipfs/go-cid"
	cidlink "github.com/ipld/go-ipld-prime/linking/cid"
	"github.com/libp2p/go-libp2p/core/peer"
)

// C01/C08/C14/C15 through the public constructor: a Subscriber built by the
// real NewSubscriber from its options (ads depth limit, first-sync depth,
// segment size, strict selector, block hook made by MakeGeneralBlockHook,
// announcement receiver, concurrency limit), HTTP-only (no libp2p host), over
// the real sync client and traversal against the harness network. The first
// sync of a publisher — explicit or announce-triggered — reports exactly the
// blocks the configured limits allow, once, newest to oldest; notification,
// latest-synced value and Close behave as specified. Option plumbing is what
// this harness adds over the hand-built subscribers of the other harnesses.
func VerifC01_ConstructedSubscriber() {
	n := 3 + verif_Tier()
	local := verif_Choose("localMask", 0, 1)
	adl := int64(verif_Choose("adsDepthLimit", 0, 2))      // 0 = unlimited
	fsd := int64(verif_Choose("firstSyncDepth", 0, 3)) - 1 // -1 (treated as 0), 0 = unlimited, 1, 2
	seg := []int64{-1, 1, 2, 3}[verif_Choose("segmentDepthLimit", 0, 3)]
	announced := verif_Bool("announced")
	w := newFullStack(n, local, -1, 16)
	defer w.restore()
	chain := w.chain

	var log []cid.Cid
	// the application cannot process one of the advertisements (-1: all are fine)
	failAt := verif_Choose("hookFailsAtBlock", 0, n) - 1
	prev := MakeGeneralBlockHook(func(c cid.Cid) (cid.Cid, error) {
		for i, x := range chain {
			if x == c {
				if i == failAt {
					return cid.Undef, errors.New("application cannot process this advertisement")
				}
				if i+1 < len(chain) {
					return chain[i+1], nil
				}
				return cid.Undef, nil
			}
		}
		return cid.Undef, errors.New("unknown advertisement")
	})
	maxAsync := verif_Choose("maxAsync", 0, 1)
	options := []Option{
		AdsDepthLimit(adl), FirstSyncDepth(fsd), SegmentDepthLimit(seg), StrictAdsSelector(true),
		BlockHook(func(p peer.ID, c cid.Cid, a SegmentSyncActions) {
			log = append(log, c)
			prev(p, c, a)
		}),
		RecvAnnounce(""), IdleHandlerTTL(time.Hour), MaxAsyncConcurrency(maxAsync)}
	if verif_Bool("optionsInReverseOrder") {
		// options are independent of the order they are listed in
		for i, j := 0, len(options)-1; i < j; i, j = i+1, j-1 {
			options[i], options[j] = options[j], options[i]
		}
	}
	s, err := NewSubscriber(nil, fsLsys(w.st), options...)
	verif_Assert(err == nil && s != nil, "a subscriber is created from valid options")
	if s == nil {
		return
	}
	// (the limiter itself is exercised by VerifC08_AnnounceBursts; here: the configured
	// maximum reaches it whatever the option order)
	verif_Assert(cap(s.syncSem) == maxAsync, "the configured maximum of concurrent announce-triggered syncs is in force")
	depth := adl
	if fsd > 0 {
		depth = fsd // first sync of this publisher
	}
	want := n
	if depth > 0 && int(depth) < n {
		want = int(depth)
	}
	evch, _ := s.OnSyncFinished()
	// (documented: the failure signal works in segmented syncs only, and a sync whose
	// depth limit does not exceed the segment size is not segmented)
	segmented := seg > 0 && (depth <= 0 || depth > seg)
	if segmented && failAt >= 0 && failAt < want {
		// the hook signals failure for a block of the requested segment: the sync
		// fails, whatever later hook calls of the same segment report (C04).
		// (Documented: without segmented sync, calls on SegmentSyncActions have no effect.)
		if announced {
			verif_Assert(s.Announce(context.Background(), chain[0], w.pinfo) == nil, "the announcement is accepted")
			ev := <-evch
			verif_Assert(ev.Err != nil && ev.Cid == chain[0], "a sync whose hook signalled failure is notified as failed")
		} else {
			_, serr := s.SyncAdChain(context.Background(), w.pinfo)
			verif_Assert(serr != nil, "a sync whose hook signalled failure returns the error")
		}
		verif_Reach("failed")
		verif_Assert(s.GetLatestSync(w.pinfo.ID) == nil, "a failed sync records no latest-synced advertisement")
		verif_Assert(s.Close() == nil, "Close succeeds")
		for e := range evch {
			verif_Assert(e.Err != nil, "no success notification for a failed sync")
		}
		return
	}
	if announced {
		verif_Assert(s.Announce(context.Background(), chain[0], w.pinfo) == nil, "the announcement is accepted")
	} else {
		got, serr := s.SyncAdChain(context.Background(), w.pinfo)
		verif_Assert(serr == nil && got == chain[0], "the sync of the queried head succeeds")
	}
	ev := <-evch // (a missing notification is reported as a hang)
	verif_Reach("notified")

	verif_Assert(ev.Err == nil && ev.Cid == chain[0] && ev.PeerID == w.pinfo.ID, "the notification names head and publisher")
	verif_Assert(ev.Count == want, "the notification counts the blocks the configured limits allow")
	verif_Assert(len(log) == want, "the hook is called once per block within the configured limits, whatever the segment size")
	for i := 0; i < want && i < len(log); i++ {
		verif_Assert(log[i] == chain[i], "blocks are reported newest to oldest")
	}
	latest := s.GetLatestSync(w.pinfo.ID)
	verif_Assert(latest != nil && latest.(cidlink.Link).Cid == chain[0], "the head is recorded as latest-synced")
	for i := 0; i < n; i++ {
		_, have := w.st.m[fsKey(chain[i])]
		if i < want {
			verif_Assert(have, "every reported block is readable from the local store")
		} else if local&(1<<i) == 0 {
			verif_Assert(!have && w.requested[i] == 0, "nothing beyond the depth limit is requested or stored")
		}
	}
	verif_Assert(s.Close() == nil, "Close succeeds")
	for range evch {
		verif_Assert(false, "no further notification")
	}
	_, cerr := s.SyncAdChain(context.Background(), w.pinfo)
	verif_Assert(cerr != nil, "entry points fail after Close")
}
