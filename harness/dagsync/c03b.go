package dagsync

import (
	"context"
	"crypto/rand"

	"github.com/libp2p/go-libp2p/core/crypto"
	"github.com/libp2p/go-libp2p/core/peer"
	"github.com/multiformats/go-multiaddr"
)

// the address with a /p2p/<id> component appended
func c03withP2P(a multiaddr.Multiaddr, id peer.ID) multiaddr.Multiaddr {
	raw := append([]byte{}, a.Bytes()...)
	raw = append(raw, 0xa5, 0x03, byte(len(id)))
	raw = append(raw, []byte(id)...)
	m, err := multiaddr.NewMultiaddrBytes(raw)
	verif_Assume(err == nil)
	return m
}

// C03, whole stack, two identities behind one HTTP address: the publisher at
// that address signs its head as A. A sync that asks for A succeeds; a sync of
// the same address that asks for B — before or after, the publisher named by
// AddrInfo.ID or only by a /p2p component of the address — is refused, records
// no latest-synced value for B and reports nothing: the sync client of one
// identity is never reused to check heads for another.
func VerifC03_TwoIdentitiesOneAddress() {
	w := newFullStack(2, 0, -1, 16)
	defer w.restore()
	_, pubB, kerr := crypto.GenerateEd25519Key(rand.Reader)
	verif_Assume(kerr == nil)
	idB, kerr := peer.IDFromPublicKey(pubB)
	verif_Assume(kerr == nil)
	idA := w.pinfo.ID
	http := w.pinfo.Addrs[0]
	info := func(id peer.ID) peer.AddrInfo {
		if verif_Bool("publisherNamedOnlyInAddress") {
			return peer.AddrInfo{Addrs: []multiaddr.Multiaddr{c03withP2P(http, id)}}
		}
		return peer.AddrInfo{ID: id, Addrs: []multiaddr.Multiaddr{http}}
	}
	syncA := func() {
		got, err := w.v.s.SyncAdChain(context.Background(), info(idA))
		verif_Assert(err == nil && got == w.chain[0], "the sync of the identity that signs the head succeeds")
	}
	bFirst := verif_Bool("otherIdentityAskedFirst")
	if !bFirst {
		syncA()
	}
	hooksBefore := len(w.v.log)
	got, err := w.v.s.SyncAdChain(context.Background(), info(idB))
	verif_Reach("other identity answered")
	verif_Assert(err != nil && !got.Defined(), "a head signed by A is refused when the caller asked to sync B")
	verif_Assert(w.v.s.GetLatestSync(idB) == nil, "and changes no latest-synced value")
	verif_Assert(len(w.v.log) == hooksBefore, "and reports no block")
	if bFirst {
		syncA()
	}
	l := w.v.s.GetLatestSync(idA)
	verif_Assert(l != nil, "A's latest-synced advertisement is recorded")
}
