package dagsync

import (
	"context"
	"github.com/libp2p/go-libp2p/core/peer"
	"github.com/multiformats/go-multiaddr"

	"github.com/ipfs/go-cid"
	"github.com/ipld/go-ipld-prime/traversal/selector"
)

func c01chain(n int) []cid.Cid {
	ch := make([]cid.Cid, n)
	for i := range ch {
		ch[i] = vCid(i + 1)
	}
	return ch
}

// symbolic depth-like integer in [lo, hi]
func c01int(label string, lo, hi int64) int64 {
	v := int64(verif_Int(label))
	verif_Assume(v >= lo && v <= hi)
	return v
}

// C01: an explicit advertisement-chain sync reports exactly the requested
// segment, for every choice of stop / head / limits / segment size, and the
// same whatever segment size splits the traversal.
func VerifC01_SyncAdChain() {
	maxN := 3 + verif_Tier()
	n := verif_Choose("chainLen", 1, maxN)
	chain := c01chain(n)
	offChain := vCid(100)
	N := int64(n)

	adsDepth := c01int("adsDepthLimit", -1, N+1)
	firstDepth := c01int("firstSyncDepth", 0, N+1)
	subSeg := c01int("segDepthLimit", -1, N+1)
	withHook := verif_Bool("blockHook")
	v := newVSub(chain, adsDepth, firstDepth, subSeg, withHook)

	// previously recorded latest sync: none or a chain position
	latestPos := verif_Choose("latestSyncPos", -1, n-1)
	if latestPos >= 0 {
		verif_Assume(v.s.SetLatestSync(v.peer.ID, chain[latestPos]) == nil)
	}

	var opts []SyncOption
	// explicit stop: none, a chain position, or a CID not on the chain
	stopOpt := verif_Choose("stopAdCid", -2, n-1) // -2 none, -1 off-chain
	stopGiven := cid.Undef
	if stopOpt == -1 {
		stopGiven = offChain
	} else if stopOpt >= 0 {
		stopGiven = chain[stopOpt]
	}
	if stopGiven != cid.Undef {
		opts = append(opts, WithStopAdCid(stopGiven))
	}
	resync := verif_Bool("resync")
	// the option is passed explicitly with either value, as callers that forward a
	// configuration flag do (the other harnesses leave it out: the default)
	opts = append(opts, WithAdsResync(resync))
	headOpt := verif_Choose("headAdCid", -1, n-1) // -1: query the publisher
	if headOpt >= 0 {
		opts = append(opts, WithHeadAdCid(chain[headOpt]))
	}
	scopedDepth := c01int("scopedDepthLimit", -1, N+1)
	if scopedDepth != 0 {
		opts = append(opts, ScopedDepthLimit(scopedDepth))
	}
	scopedSeg := c01int("scopedSegmentDepthLimit", -1, N+1)
	if scopedSeg != 0 {
		opts = append(opts, ScopedSegmentDepthLimit(scopedSeg))
	}

	got, err := v.s.SyncAdChain(context.Background(), v.peer, opts...)
	verif_Reach("returned")
	events := v.drain()

	// ---- specification (DESIGN.md B.2) ----
	stop := cid.Undef
	if stopGiven != cid.Undef {
		stop = stopGiven
	} else if !resync && latestPos >= 0 {
		stop = chain[latestPos]
	}
	h := 0
	if headOpt >= 0 {
		h = headOpt
	}
	head := chain[h]
	verif_Assert(err == nil, "a sync against a fault-free publisher succeeds")
	verif_Assert(got == head, "the head returned is the requested (or queried) head")
	latestBefore := cid.Undef
	if latestPos >= 0 {
		latestBefore = chain[latestPos]
	}
	if stop == head {
		verif_Reach("head is stop")
		verif_Assert(len(v.log) == 0 && len(v.sy.reqs) == 0, "head equal to the stop point: nothing is requested or reported")
		verif_Assert(len(events) == 0 && v.latest() == latestBefore, "head equal to the stop point: no notification, latest unchanged")
		return
	}
	// applicable depth limit; 0 means none
	var limit int64
	switch {
	case scopedDepth != 0:
		limit = scopedDepth
	case stop == cid.Undef && firstDepth != 0:
		limit = firstDepth
	default:
		limit = adsDepth
	}
	if limit < 1 {
		limit = 0
	}
	var want []cid.Cid
	for i := h; i < n; i++ {
		if i > h && chain[i] == stop {
			break
		}
		if limit != 0 && int64(len(want)) >= limit {
			break
		}
		want = append(want, chain[i])
	}
	verif_Reach("synced")
	if withHook {
		verif_Assert(len(v.log) == len(want), "the block hook is called once per block of the requested segment")
		if len(v.log) == len(want) {
			for i := range want {
				verif_Assert(v.log[i] == want[i], "blocks are reported newest to oldest, from the head up to the stop point or depth limit")
			}
		}
	}
	// no request ever starts at the stop block, at anything older, or off the segment
	for _, r := range v.sy.reqs {
		p := v.sy.pos(r.start)
		verif_Assert(p >= h && p < h+len(want), "every request to the publisher starts inside the requested segment")
		verif_Assert(r.stop == stop, "every request carries the applicable stop link")
		verif_Assert(r.limit.Mode() == selector.RecursionLimit_None || r.limit.Depth() >= 1, "segment depth is positive")
	}
	if headOpt < 0 {
		verif_Assert(len(events) == 1 && events[0].Cid == head && events[0].PeerID == v.peer.ID && events[0].Count == len(want) && events[0].Err == nil,
			"a successful sync of the queried head emits exactly one notification with head, publisher and block count")
		verif_Assert(v.latest() == head, "a successful sync of the queried head records it as latest synced")
	} else {
		verif_Assert(len(events) == 0, "a sync to an explicit head emits no notification")
		verif_Assert(v.latest() == latestBefore, "a sync to an explicit head does not change the latest-synced value")
	}
}

// specification of one traversal: positions visited from h
func c01want(chain []cid.Cid, h int, stop cid.Cid, limit int64) []cid.Cid {
	var want []cid.Cid
	for i := h; i < len(chain); i++ {
		if i > h && chain[i] == stop {
			break
		}
		if i > h && limit > 0 && int64(len(want)) >= limit {
			break
		}
		want = append(want, chain[i])
	}
	return want
}

func c01sameLog(got, want []cid.Cid) bool {
	if len(got) != len(want) {
		return false
	}
	for i := range want {
		if got[i] != want[i] {
			return false
		}
	}
	return true
}

// C01: the announce-triggered path uses the latest sync as stop point, the
// first-sync depth only when nothing was synced yet, and reports the segment.
func VerifC01_AnnouncedSync() {
	n := verif_Choose("chainLen", 1, 3+verif_Tier())
	chain := c01chain(n)
	N := int64(n)
	adsDepth := c01int("adsDepthLimit", -1, N+1)
	firstDepth := c01int("firstSyncDepth", 0, N+1)
	subSeg := c01int("segDepthLimit", -1, N+1)
	withHook := verif_Bool("blockHook")
	v := newVSub(chain, adsDepth, firstDepth, subSeg, withHook)
	latestPos := verif_Choose("latestSyncPos", -1, n-1)
	latestBefore := cid.Undef
	if latestPos >= 0 {
		latestBefore = chain[latestPos]
		verif_Assume(v.s.SetLatestSync(v.peer.ID, latestBefore) == nil)
	}
	a := verif_Choose("announcedPos", 0, n-1)
	hnd := v.s.getOrCreateHandler(v.peer.ID)
	amsg := announceFor(chain[a], v.peer.ID)
	hnd.pendingMsg.Store(&amsg)
	hnd.asyncSyncAdChain(context.Background())
	verif_Reach("handled")
	events := v.drain()
	verif_Assert(hnd.pendingMsg.Load() == nil, "the pending announcement is consumed")
	if latestBefore == chain[a] {
		verif_Assert(len(v.log) == 0 && len(v.sy.reqs) == 0 && len(events) == 0 && v.latest() == latestBefore, "announced head equal to the latest sync: nothing to do")
		return
	}
	limit := adsDepth
	if latestPos < 0 && firstDepth != 0 {
		limit = firstDepth
	}
	if limit < 1 {
		limit = 0
	}
	want := c01want(chain, a, latestBefore, limit)
	verif_Reach("synced")
	if withHook {
		verif_Assert(c01sameLog(v.log, want), "announce-triggered sync reports the blocks from the announced head back to the latest sync, cut at the depth limit")
	}
	for _, r := range v.sy.reqs {
		p := v.sy.pos(r.start)
		verif_Assert(p >= a && p < a+len(want), "every request starts inside the requested segment")
		verif_Assert(r.stop == latestBefore, "every request carries the latest sync as stop link")
	}
	verif_Assert(len(events) == 1 && events[0].Cid == chain[a] && events[0].Count == len(want) && events[0].Err == nil && events[0].PeerID == v.peer.ID, "exactly one notification with head, publisher and count")
	verif_Assert(v.latest() == chain[a], "the announced head becomes the latest sync")
}

// C01: entries-chain variants choose the right selector limit and segmenting.
func VerifC01_EntriesSync() {
	n := verif_Choose("chainLen", 1, 3+verif_Tier())
	chain := c01chain(n)
	N := int64(n)
	entDepth := c01int("entriesDepthLimit", -1, N+1)
	subSeg := c01int("segDepthLimit", -1, N+1)
	withHook := verif_Bool("blockHook")
	v := newVSubEnts(chain, 0, 0, subSeg, entDepth, withHook)
	start := verif_Choose("entriesStartPos", 0, n-1)
	// the caller names the publisher by ID, or only by the /p2p component of its address
	who := v.peer
	if verif_Bool("publisherNamedOnlyInAddress") {
		who = peer.AddrInfo{Addrs: []multiaddr.Multiaddr{vP2PAddr(v.peer.ID)}}
	}
	var err error
	var want []cid.Cid
	switch verif_Choose("variant", 0, 2) {
	case 0:
		scoped := c01int("scopedDepthLimit", -1, N+1)
		var opts []SyncOption
		if scoped != 0 {
			opts = append(opts, ScopedDepthLimit(scoped))
		}
		err = v.s.SyncEntries(context.Background(), who, chain[start], opts...)
		limit := entDepth
		if scoped != 0 {
			limit = scoped
		}
		if limit < 1 {
			limit = 0
		}
		want = c01want(chain, start, cid.Undef, limit)
	case 1:
		err = v.s.SyncOneEntry(context.Background(), who, chain[start])
		want = chain[start : start+1]
		verif_Assert(len(v.sy.reqs) <= 1, "a single-entry sync is one request")
	case 2:
		err = v.s.SyncHAMTEntries(context.Background(), who, chain[start])
		want = chain[start:]
		verif_Assert(len(v.sy.reqs) <= 1, "an all-links sync is never segmented")
	}
	verif_Reach("synced")
	verif_Assert(err == nil, "entries sync against a fault-free publisher succeeds")
	if withHook {
		verif_Assert(c01sameLog(v.log, want), "entries sync reports the blocks from the given entry up to the applicable depth limit")
	}
	verif_Assert(len(v.drain()) == 0 && v.latest() == cid.Undef, "entries syncs emit no notification and record no latest sync")
	for _, r := range v.sy.reqs {
		p := v.sy.pos(r.start)
		verif_Assert(p >= start && p < start+len(want), "every request starts inside the requested segment")
	}
}

// C01: segmented traversal over a longer chain: the remaining-depth arithmetic
// across three and more segments. Depth limit and segment size are symbolic;
// the blocks reported must not depend on the segment size.
func VerifC01_SegmentedDepth() {
	n := 6 + verif_Tier()*2
	chain := c01chain(n)
	N := int64(n)
	depth := c01int("adsDepthLimit", 1, N+2)
	seg := c01int("segDepthLimit", 1, N+2)
	v := newVSub(chain, depth, 0, seg, true)
	stopPos := verif_Choose("latestSyncPos", n-2, n) // n = none; otherwise near the end of the chain
	stop := cid.Undef
	if stopPos < n {
		stop = chain[stopPos]
		verif_Assume(v.s.SetLatestSync(v.peer.ID, stop) == nil)
	}
	got, err := v.s.SyncAdChain(context.Background(), v.peer)
	verif_Reach("synced")
	want := c01want(chain, 0, stop, depth)
	verif_Assert(err == nil && got == chain[0], "the sync succeeds and returns the head")
	verif_Assert(c01sameLog(v.log, want), "a depth-limited segmented sync reports exactly the blocks within the depth limit, whatever the segment size")
	ev := v.drain()
	verif_Assert(len(ev) == 1 && ev[0].Count == len(want), "the notification counts exactly those blocks")
	total := int64(0)
	for _, r := range v.sy.reqs {
		p := v.sy.pos(r.start)
		verif_Assert(p >= 0 && p < len(want), "every segment starts inside the requested range")
		total++
	}
	verif_Assert(total >= 1, "at least one request")
}
