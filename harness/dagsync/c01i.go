package dagsync

import (
	"context"

	"github.com/ipfs/go-cid"
	cidlink "github.com/ipld/go-ipld-prime/linking/cid"
	"github.com/libp2p/go-libp2p/core/peer"
)

// C01, entries chains through the public constructor: a Subscriber built by the
// real NewSubscriber with independent advertisement and entries depth limits
// syncs an entries chain (SyncEntries, with or without a per-call scoped limit,
// segmented or not). Exactly the blocks within the limit that applies — the
// scoped one if given, else the subscriber's entries limit, never the
// advertisement limit — are reported, once, newest to oldest, and nothing
// beyond is requested.
func VerifC01_ConstructedEntriesSync() {
	n := 3 + verif_Tier()
	adl := int64(verif_Choose("adsDepthLimit", 0, 2))     // 0 = unlimited
	edl := int64(verif_Choose("entriesDepthLimit", 0, 3)) // 0 = unlimited
	sdl := int64(verif_Choose("scopedDepthLimit", 0, 2))  // 0 = none
	seg := []int64{-1, 1, 2}[verif_Choose("segmentDepthLimit", 0, 2)]
	w := newFullStackField(n, 0, -1, 16, "Next")
	defer w.restore()
	chain := w.chain

	var log []cid.Cid
	next := MakeGeneralBlockHook(func(c cid.Cid) (cid.Cid, error) {
		for i, x := range chain {
			if x == c && i+1 < len(chain) {
				return chain[i+1], nil
			}
		}
		return cid.Undef, nil
	})
	s, err := NewSubscriber(nil, fsLsys(w.st),
		AdsDepthLimit(adl), EntriesDepthLimit(edl), SegmentDepthLimit(seg),
		BlockHook(func(p peer.ID, c cid.Cid, a SegmentSyncActions) {
			log = append(log, c)
			next(p, c, a)
		}))
	verif_Assert(err == nil && s != nil, "a subscriber is created from valid options")
	if s == nil {
		return
	}
	var opts []SyncOption
	depth := edl
	if sdl != 0 {
		opts = append(opts, ScopedDepthLimit(sdl))
		depth = sdl
	}
	want := n
	if depth > 0 && int(depth) < n {
		want = int(depth)
	}
	serr := s.SyncEntries(context.Background(), w.pinfo, chain[0], opts...)
	verif_Reach("synced")
	verif_Assert(serr == nil, "the entries sync succeeds")
	verif_Assert(len(log) == want, "the hook is called once per entries block within the limit that applies")
	for i := 0; i < want && i < len(log); i++ {
		verif_Assert(log[i] == chain[i], "blocks are reported newest to oldest")
	}
	for i := 0; i < n; i++ {
		_, have := w.st.m[fsKey(chain[i])]
		if i < want {
			verif_Assert(have, "every reported block is readable from the local store")
		} else {
			verif_Assert(!have && w.requested[i] == 0, "nothing beyond the depth limit is requested or stored")
		}
	}
	verif_Assert(s.GetLatestSync(w.pinfo.ID) == nil, "an entries sync does not change the latest-synced advertisement")
	verif_Assert(s.Close() == nil, "Close succeeds")
}

// C01, stop point supplied by the application (WithLastKnownSync): when the
// subscriber has no latest-synced advertisement of its own for a publisher it
// asks the application's function; the first sync then stops at (excludes) that
// advertisement, requests nothing at or beyond it, and records the head. A
// function that knows nothing (false, or an undefined CID) means: no stop.
func VerifC01_LastKnownSyncIsTheStopPoint() {
	n := 3 + verif_Tier()
	w := newFullStack(n, 0, -1, 16)
	defer w.restore()
	chain := w.chain
	known := verif_Choose("lastKnownPosition", 1, n) // n: the application knows nothing
	answer := verif_Choose("unknownAnsweredAs", 0, 1)
	asked := 0
	var log []cid.Cid
	s, err := NewSubscriber(nil, fsLsys(w.st), StrictAdsSelector(true), RecvAnnounce(""),
		BlockHook(func(p peer.ID, c cid.Cid, a SegmentSyncActions) { log = append(log, c) }),
		WithLastKnownSync(func(p peer.ID) (cid.Cid, bool) {
			asked++
			verif_Assert(p == w.pinfo.ID, "the application is asked about the publisher being synced")
			if known < n {
				return chain[known], true
			}
			if answer == 0 {
				return cid.Undef, false
			}
			return cid.Undef, true
		}))
	verif_Assert(err == nil && s != nil, "a subscriber is created from valid options")
	if s == nil {
		return
	}
	announced := verif_Bool("announced")
	if announced {
		evch, _ := s.OnSyncFinished()
		verif_Assert(s.Announce(context.Background(), chain[0], w.pinfo) == nil, "the announcement is accepted")
		ev := <-evch
		verif_Assert(ev.Err == nil && ev.Cid == chain[0] && ev.Count == known, "the notification counts the blocks down to the last known advertisement")
	} else {
		got, serr := s.SyncAdChain(context.Background(), w.pinfo)
		verif_Assert(serr == nil && got == chain[0], "the sync of the queried head succeeds")
	}
	verif_Reach("synced")
	verif_Assert(asked > 0, "the application's function is consulted when nothing is recorded yet")
	verif_Assert(len(log) == known, "exactly the blocks newer than the last known advertisement are reported")
	for i := 0; i < known && i < len(log); i++ {
		verif_Assert(log[i] == chain[i], "newest to oldest")
	}
	for i := known; i < n; i++ {
		verif_Assert(w.requested[i] == 0, "the stop block and anything older are never requested")
	}
	l := s.GetLatestSync(w.pinfo.ID)
	verif_Assert(l != nil && l.(cidlink.Link).Cid == chain[0], "the head is recorded as latest-synced")
	verif_Assert(s.Close() == nil, "Close succeeds")
}
