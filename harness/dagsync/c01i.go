package dagsync

import (
	"context"

	"github.com/ipfs/go-cid"
	"github.com/libp2p/go-libp2p/core/peer"
)

// C01, entries chains through the public constructor: a Subscriber built by the
// real NewSubscriber with independent advertisement and entries depth limits
// syncs an entries chain (SyncEntries, with or without a per-call scoped limit,
// segmented or not). Exactly the blocks within the limit that applies — the
// scoped one if given, else the subscriber's entries limit, never the
// advertisement limit — are reported, once, newest to oldest, and nothing
// beyond is requested.
func VerifC01_ConstructedEntriesSync() {
	n := 3 + verif_Tier()
	adl := int64(verif_Choose("adsDepthLimit", 0, 2))     // 0 = unlimited
	edl := int64(verif_Choose("entriesDepthLimit", 0, 3)) // 0 = unlimited
	sdl := int64(verif_Choose("scopedDepthLimit", 0, 2))  // 0 = none
	seg := []int64{-1, 1, 2}[verif_Choose("segmentDepthLimit", 0, 2)]
	w := newFullStackField(n, 0, -1, 16, "Next")
	defer w.restore()
	chain := w.chain

	var log []cid.Cid
	next := MakeGeneralBlockHook(func(c cid.Cid) (cid.Cid, error) {
		for i, x := range chain {
			if x == c && i+1 < len(chain) {
				return chain[i+1], nil
			}
		}
		return cid.Undef, nil
	})
	s, err := NewSubscriber(nil, fsLsys(w.st),
		AdsDepthLimit(adl), EntriesDepthLimit(edl), SegmentDepthLimit(seg),
		BlockHook(func(p peer.ID, c cid.Cid, a SegmentSyncActions) {
			log = append(log, c)
			next(p, c, a)
		}))
	verif_Assert(err == nil && s != nil, "a subscriber is created from valid options")
	if s == nil {
		return
	}
	var opts []SyncOption
	depth := edl
	if sdl != 0 {
		opts = append(opts, ScopedDepthLimit(sdl))
		depth = sdl
	}
	want := n
	if depth > 0 && int(depth) < n {
		want = int(depth)
	}
	serr := s.SyncEntries(context.Background(), w.pinfo, chain[0], opts...)
	verif_Reach("synced")
	verif_Assert(serr == nil, "the entries sync succeeds")
	verif_Assert(len(log) == want, "the hook is called once per entries block within the limit that applies")
	for i := 0; i < want && i < len(log); i++ {
		verif_Assert(log[i] == chain[i], "blocks are reported newest to oldest")
	}
	for i := 0; i < n; i++ {
		_, have := w.st.m[fsKey(chain[i])]
		if i < want {
			verif_Assert(have, "every reported block is readable from the local store")
		} else {
			verif_Assert(!have && w.requested[i] == 0, "nothing beyond the depth limit is requested or stored")
		}
	}
	verif_Assert(s.GetLatestSync(w.pinfo.ID) == nil, "an entries sync does not change the latest-synced advertisement")
	verif_Assert(s.Close() == nil, "Close succeeds")
}
