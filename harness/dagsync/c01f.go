package dagsync

import (
	"bytes"
	"context"
	"crypto/rand"
	"io"
	"net/http"
	"strings"

	"github.com/ipfs/go-cid"
	"github.com/ipld/go-ipld-prime"
	"github.com/ipld/go-ipld-prime/codec/dagcbor"
	"github.com/ipld/go-ipld-prime/fluent"
	cidlink "github.com/ipld/go-ipld-prime/linking/cid"
	"github.com/ipld/go-ipld-prime/multicodec"
	basicnode "github.com/ipld/go-ipld-prime/node/basic"
	"github.com/ipld/go-ipld-prime/traversal/selector/builder"
	"github.com/ipni/go-libipni/announce"
	"github.com/ipni/go-libipni/dagsync/ipnisync"
	headschema "github.com/ipni/go-libipni/dagsync/ipnisync/head"
	"github.com/libp2p/go-libp2p/core/crypto"
	"github.com/libp2p/go-libp2p/core/peer"
	"github.com/multiformats/go-multiaddr"
	"github.com/multiformats/go-multihash"
)

// fsStore is a block store; fsLsys its link system.
type fsStore struct{ m map[string][]byte }

func fsLsys(st *fsStore) ipld.LinkSystem {
	lsys := cidlink.DefaultLinkSystem()
	lsys.StorageReadOpener = func(lc ipld.LinkContext, l ipld.Link) (io.Reader, error) {
		b, ok := st.m[l.Binary()]
		if !ok {
			return nil, ipld.ErrNotExists{}
		}
		return bytes.NewReader(b), nil
	}
	lsys.StorageWriteOpener = func(lc ipld.LinkContext) (io.Writer, ipld.BlockWriteCommitter, error) {
		var buf bytes.Buffer
		return &buf, func(l ipld.Link) error {
			st.m[l.Binary()] = append([]byte{}, buf.Bytes()...)
			return nil
		}, nil
	}
	return lsys
}

type fsRT struct {
	fn func(req *http.Request) (*http.Response, error)
}

func (r *fsRT) RoundTrip(req *http.Request) (*http.Response, error) { return r.fn(req) }

// fsWorld is the whole-stack world: a publisher store with a real dag-cbor
// chain, the subscriber's store, a harness HTTP network and a hand-built
// Subscriber whose sync clients are created by the real NewSyncer.
type fsWorld struct {
	chain       []cid.Cid
	pub, st     *fsStore
	v           *vSub
	pinfo       peer.AddrInfo
	requested   map[int]int
	headQueries int
	// respond, if set, may replace the publisher's answer to the k-th request for block i
	respond func(i, k int) (*http.Response, error)
	restore func()
}

func fsKey(c cid.Cid) string { return cidlink.Link{Cid: c}.Binary() }

func fsResp(status int, body []byte) *http.Response {
	return &http.Response{StatusCode: status, Body: io.NopCloser(bytes.NewReader(body)), Header: http.Header{}}
}

func newFullStack(n, localMask int, segLimit int64, mhLen int) *fsWorld {
	return newFullStackField(n, localMask, segLimit, mhLen, "PreviousID")
}

// the same world with blocks chained through the given link field ("Next": an entries chain)
func newFullStackField(n, localMask int, segLimit int64, mhLen int, field string) *fsWorld {
	multicodec.RegisterEncoder(cid.DagCBOR, dagcbor.Encode)
	multicodec.RegisterDecoder(cid.DagCBOR, dagcbor.Decode)
	lp := cidlink.LinkPrototype{Prefix: cid.Prefix{Version: 1, Codec: cid.DagCBOR, MhType: multihash.SHA2_256, MhLength: mhLen}}
	w := &fsWorld{pub: &fsStore{m: map[string][]byte{}}, st: &fsStore{m: map[string][]byte{}}, requested: map[int]int{}}
	publs := fsLsys(w.pub)
	w.chain = make([]cid.Cid, n)
	var prev ipld.Link
	for i := n - 1; i >= 0; i-- {
		p := prev
		nd := fluent.MustBuildMap(basicnode.Prototype.Map, 2, func(na fluent.MapAssembler) {
			na.AssembleEntry("ContextID").AssignString(string(rune('a' + i)))
			if p != nil {
				na.AssembleEntry(field).AssignLink(p)
			}
		})
		l, err := publs.Store(ipld.LinkContext{}, lp, nd)
		verif_Assume(err == nil)
		w.chain[i] = l.(cidlink.Link).Cid
		prev = l
	}
	for i := 0; i < n; i++ {
		if localMask&(1<<i) != 0 {
			w.st.m[fsKey(w.chain[i])] = w.pub.m[fsKey(w.chain[i])]
		}
	}
	// the publisher's identity and its signed head for the newest advertisement
	priv, pubk, kerr := crypto.GenerateEd25519Key(rand.Reader)
	verif_Assume(kerr == nil)
	pubID, kerr := peer.IDFromPublicKey(pubk)
	verif_Assume(kerr == nil)
	sh, herr := headschema.NewSignedHead(w.chain[0], "", priv)
	verif_Assume(herr == nil)
	headWire, herr := sh.Encode()
	verif_Assume(herr == nil)
	oldRT := http.DefaultTransport
	http.DefaultTransport = &fsRT{fn: func(req *http.Request) (*http.Response, error) {
		if strings.HasSuffix(req.URL.Path, "/head") {
			w.headQueries++
			return fsResp(200, headWire), nil
		}
		for i, c := range w.chain {
			if strings.HasSuffix(req.URL.Path, "/"+c.String()) {
				w.requested[i]++
				if w.respond != nil {
					if r, err := w.respond(i, w.requested[i]); r != nil || err != nil {
						return r, err
					}
				}
				return fsResp(200, w.pub.m[fsKey(c)]), nil
			}
		}
		return fsResp(404, nil), nil
	}}
	w.restore = func() { http.DefaultTransport = oldRT }
	w.v = newVSub(w.chain, -1, 0, segLimit, true)
	w.v.peer = peer.AddrInfo{ID: pubID}
	ssb := builder.NewSelectorSpecBuilder(basicnode.Prototype.Any)
	w.v.s.adsSelectorSeq = ssb.ExploreFields(func(efsb builder.ExploreFieldsSpecBuilder) {
		efsb.Insert("PreviousID", ssb.ExploreRecursiveEdge())
	}).Node()
	w.v.s.ipniSync = ipnisync.NewSync(fsLsys(w.st), w.v.dispatch)
	hnd := w.v.s.getOrCreateHandler(w.v.peer.ID)
	hnd.syncer = nil // the real sync client is created by makeSyncer
	addr, err := multiaddr.NewMultiaddr("/ip4/127.0.0.1/tcp/80/http")
	verif_Assume(err == nil)
	w.pinfo = peer.AddrInfo{ID: w.v.peer.ID, Addrs: []multiaddr.Multiaddr{addr}}
	return w
}

// C02 + C04, whole stack: one request of a sync is answered wrongly (error
// status, transport error, another valid block of the same chain, a truncated
// body, the genuine body with one altered byte, appended bytes). The sync fails,
// nothing that does not hash to its CID is stored or reported, the
// latest-synced value is unchanged and no notification is emitted; once the
// publisher answers correctly the same sync succeeds and ends in the state of a
// fault-free run. Hash collisions on the inputs of the run are excluded (cfg).
func VerifC04_FullStackFault() {
	n := 3 + verif_Tier() // chain length: 3 (quick), 4 (thorough)
	seg := verif_Choose("segDepthLimit", 0, 2)
	segLimit := int64(-1)
	if seg > 0 {
		segLimit = int64(seg)
	}
	// full-length digests: "no collisions" is assumed for SHA-256, not for its truncations
	w := newFullStack(n, 0, segLimit, 32)
	defer w.restore()
	faultAt := verif_Choose("faultyBlock", 0, n-1)
	kind := verif_Choose("faultKind", 0, 6)
	genuine := w.pub.m[fsKey(w.chain[faultAt])]
	faulty := true // the publisher misbehaves for this block during the whole first sync (retries and fallback paths included)
	w.respond = func(i, k int) (*http.Response, error) {
		if i != faultAt || !faulty {
			return nil, nil
		}
		switch kind {
		case 0:
			return fsResp(500, nil), nil
		case 1:
			return fsResp(404, nil), nil
		case 2:
			return nil, context.DeadlineExceeded
		case 3: // another valid block of the same chain
			return fsResp(200, w.pub.m[fsKey(w.chain[(faultAt+1)%n])]), nil
		case 4: // truncated
			return fsResp(200, genuine[:len(genuine)-1-verif_Choose("cutBytes", 0, 2)]), nil
		case 5: // one altered byte
			b := append([]byte{}, genuine...)
			x := verif_U8("xorMask")
			verif_Assume(x != 0)
			b[verif_Choose("alteredByte", 0, len(b)-1)] ^= x
			return fsResp(200, b), nil
		default: // appended bytes
			return fsResp(200, append(append([]byte{}, genuine...), verif_U8("appended"))), nil
		}
	}
	evBefore := len(w.v.drain())
	got, err := w.v.s.SyncAdChain(context.Background(), w.pinfo)
	_ = got
	verif_Reach("faulted sync returned")
	verif_Assert(err != nil, "a sync in which a block cannot be fetched intact fails")
	verif_Assert(w.v.latest() == cid.Undef, "a failed sync leaves the latest-synced value unchanged")
	verif_Assert(len(w.v.drain()) == evBefore, "a failed explicit sync emits no notification")
	for i, c := range w.chain {
		if b, ok := w.st.m[fsKey(c)]; ok {
			verif_Assert(bytes.Equal(b, w.pub.m[fsKey(c)]), "every block in the local store is the block that hashes to its CID")
			verif_Assert(i < faultAt, "nothing at or beyond the faulty block was stored")
		}
	}
	for _, c := range w.v.log {
		verif_Assert(c != w.chain[faultAt], "the block that failed verification is never reported to the hook")
	}
	// the publisher answers correctly from now on
	faulty = false
	firstSyncRequests := w.requested[faultAt]
	w.v.log, w.v.hooks = nil, 0
	got2, err2 := w.v.s.SyncAdChain(context.Background(), w.pinfo)
	verif_Reach("retried")
	verif_Assert(err2 == nil && got2 == w.chain[0], "once the publisher answers correctly the same sync succeeds")
	verif_Assert(w.v.latest() == w.chain[0], "and leaves the latest-synced value of a fault-free run")
	for _, c := range w.chain {
		b, ok := w.st.m[fsKey(c)]
		verif_Assert(ok && bytes.Equal(b, w.pub.m[fsKey(c)]), "and the same stored blocks as a fault-free run")
	}
	for i := 0; i < n; i++ {
		want := 1
		if i == faultAt {
			want = firstSyncRequests + 1
		}
		verif_Assert(w.requested[i] <= want, "blocks verified before the fault are not fetched again")
	}
	evs := w.v.drain()
	verif_Assert(len(evs) == 1 && evs[0].Err == nil && evs[0].Cid == w.chain[0], "the retried sync emits the one success notification")
	// the retried sync reports the whole chain exactly once, newest to oldest, and
	// counts it — nothing left over from the failed attempt is reported again
	verif_Assert(len(w.v.log) == n, "the retried sync reports every block of the chain exactly once")
	for i := 0; i < n && i < len(w.v.log); i++ {
		verif_Assert(w.v.log[i] == w.chain[i], "newest to oldest")
	}
	if len(evs) == 1 {
		verif_Assert(evs[0].Count == n, "and its notification counts exactly those blocks")
	}
}

// C01, whole stack: the REAL Subscriber.SyncAdChain (segmented loop, selector
// construction, hook wrapping, notification, latest-sync bookkeeping) over the
// REAL ipnisync sync client (NewSyncer plain-HTTP fallback, fetch, fetchBlock,
// walkFetch), go-ipld-prime's selector compiler / traversal / dag-cbor codec,
// against a harness HTTP network serving a real 3-advertisement chain. No model
// syncer: this is the cross-check of the model syncer's contract (Appendix B.1)
// and of C01's clauses on the code users run. For every subset of blocks
// already local, depth limit, stop position (latest-synced or explicit),
// segment size and start head: the hook sees exactly the requested segment once,
// newest to oldest; only missing blocks are requested, each once; count, head,
// notification and latest-synced value follow the specification.
func VerifC01_FullStack() {
	n := 3 + verif_Tier() // chain length: 3 (quick), 4 (thorough)
	local := verif_Choose("localMask", 0, 1<<n-1)
	depth := verif_Choose("depthLimit", 0, n)  // per-call depth limit; 0 = none
	stopKind := verif_Choose("stop", 0, 2)     // 0 none, 1 latest-synced = oldest block, 2 explicit stop = oldest block
	seg := verif_Choose("segDepthLimit", 0, 2) // 0 = no segmentation
	start := verif_Choose("start", 0, 2)       // 0: head queried from the publisher (signed head), 1: explicit newest, 2: explicit second
	segLimit := int64(-1)
	if seg > 0 {
		segLimit = int64(seg)
	}
	w := newFullStack(n, local, segLimit, 16)
	defer w.restore()
	chain, v, st := w.chain, w.v, w.st
	requested := w.requested

	stopIdx := -1
	var opts []SyncOption
	startIdx := 0
	if start > 0 {
		startIdx = start - 1
		opts = append(opts, WithHeadAdCid(chain[startIdx]))
	}
	switch stopKind {
	case 1:
		stopIdx = n - 1
		verif_Assume(v.s.SetLatestSync(v.peer.ID, chain[stopIdx]) == nil)
	case 2:
		stopIdx = n - 1
		opts = append(opts, WithStopAdCid(chain[stopIdx]))
	}
	if depth > 0 {
		opts = append(opts, ScopedDepthLimit(int64(depth)))
	}
	latestBefore := v.latest()
	got, serr := v.s.SyncAdChain(context.Background(), w.pinfo, opts...)
	verif_Reach("synced")

	var want []int
	for i := startIdx; i < n; i++ {
		if i == stopIdx {
			break
		}
		if depth > 0 && len(want) >= depth {
			break
		}
		want = append(want, i)
	}
	verif_Assert(serr == nil && got == chain[startIdx], "the sync succeeds and returns the head it was given or queried")
	if serr != nil {
		return
	}
	verif_Assert(len(v.log) == len(want), "the block hook is called once per block of the requested segment, whatever the segment size and whatever is already local")
	for k, i := range want {
		if k < len(v.log) {
			verif_Assert(v.log[k] == chain[i], "hook calls are newest to oldest")
		}
	}
	for i := 0; i < n; i++ {
		inSeg := false
		for _, x := range want {
			if x == i {
				inSeg = true
			}
		}
		_, have := st.m[fsKey(chain[i])]
		if local&(1<<i) != 0 {
			verif_Assert(requested[i] == 0, "a block already in the local store is not requested from the publisher")
		} else if inSeg {
			verif_Assert(requested[i] == 1 && have, "each missing block of the segment is requested exactly once and stored")
		} else {
			verif_Assert(requested[i] == 0 && !have, "no block beyond the stop point or the depth limit is requested or stored")
		}
	}
	evs := v.drain()
	if start == 0 {
		verif_Assert(w.headQueries == 1, "the head is queried once")
		verif_Assert(v.latest() == chain[0], "a sync of the queried head records it as latest-synced")
		verif_Assert(len(evs) == 1 && evs[0].Cid == chain[0] && evs[0].PeerID == v.peer.ID && evs[0].Count == len(want) && evs[0].Err == nil, "and emits exactly one notification with head, publisher and block count")
	} else {
		verif_Assert(w.headQueries == 0, "an explicit head is not queried")
		verif_Assert(v.latest() == latestBefore, "a sync of an explicit head leaves the latest-synced value alone")
		verif_Assert(len(evs) == 0, "and emits no notification")
	}
}

// C01, whole stack, announce-triggered: the announcement arrives through the
// real receiver and is handled by the real asyncSyncAdChain over the real sync
// client and traversal: the segment from the announced head back to the
// latest-synced advertisement (or, on a first sync, as deep as the first-sync
// depth allows) is reported once, newest to oldest; latest-synced becomes the
// announced head; one notification carries head, publisher and count.
func VerifC01_FullStackAnnounced() {
	n := 3 + verif_Tier() // chain length: 3 (quick), 4 (thorough)
	local := verif_Choose("localMask", 0, 1<<n-1)
	seg := verif_Choose("segDepthLimit", 0, 2)
	firstDepth := verif_Choose("firstSyncDepth", 0, 2) // 0 = unlimited
	latestPos := verif_Choose("latestSyncPos", 1, n)   // n = none (first sync)
	segLimit := int64(-1)
	if seg > 0 {
		segLimit = int64(seg)
	}
	w := newFullStack(n, local, segLimit, 16)
	defer w.restore()
	chain, v := w.chain, w.v
	v.s.firstSyncDepth = int64(firstDepth)
	rcv, rerr := announce.NewReceiver(nil, "")
	verif_Assume(rerr == nil)
	v.s.receiver = rcv
	if latestPos < n {
		verif_Assume(v.s.SetLatestSync(v.peer.ID, chain[latestPos]) == nil)
	}
	verif_Assume(rcv.Direct(context.Background(), chain[0], w.pinfo) == nil)
	amsg, nerr := rcv.Next(context.Background())
	verif_Assume(nerr == nil)
	hnd := v.s.getOrCreateHandler(v.peer.ID)
	hnd.pendingMsg.Store(&amsg)
	hnd.asyncSyncAdChain(context.Background())
	verif_Reach("handled")

	var want []int
	for i := 0; i < n; i++ {
		if i == latestPos {
			break
		}
		if latestPos == n && firstDepth > 0 && len(want) >= firstDepth {
			break
		}
		want = append(want, i)
	}
	evs := v.drain()
	verif_Assert(len(evs) == 1 && evs[0].Err == nil && evs[0].Cid == chain[0] && evs[0].PeerID == v.peer.ID, "one success notification names the announced head and the publisher")
	if len(evs) == 1 {
		verif_Assert(evs[0].Count == len(want), "the notification carries the block count of the sync")
	}
	verif_Assert(v.latest() == chain[0], "latest-synced becomes the announced head")
	verif_Assert(len(v.log) == len(want), "the hook sees exactly the blocks between the announced head and the latest-synced advertisement (first sync: within the first-sync depth)")
	for k, i := range want {
		if k < len(v.log) {
			verif_Assert(v.log[k] == chain[i], "hook calls are newest to oldest")
		}
	}
	for i := 0; i < n; i++ {
		inSeg := false
		for _, x := range want {
			if x == i {
				inSeg = true
			}
		}
		if local&(1<<i) != 0 || !inSeg {
			verif_Assert(w.requested[i] == 0, "local blocks and blocks outside the segment are not requested")
		} else {
			verif_Assert(w.requested[i] == 1, "each missing block of the segment is requested once")
		}
	}
	verif_Assert(w.headQueries == 0, "an announced head is not queried")
}
