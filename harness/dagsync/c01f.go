package dagsync

import (
	"bytes"
	"context"
	"io"
	"net/http"
	"strings"

	"github.com/ipfs/go-cid"
	"github.com/ipld/go-ipld-prime"
	"github.com/ipld/go-ipld-prime/codec/dagcbor"
	"github.com/ipld/go-ipld-prime/fluent"
	cidlink "github.com/ipld/go-ipld-prime/linking/cid"
	"github.com/ipld/go-ipld-prime/multicodec"
	basicnode "github.com/ipld/go-ipld-prime/node/basic"
	"github.com/ipld/go-ipld-prime/traversal/selector/builder"
	"github.com/ipni/go-libipni/dagsync/ipnisync"
	"github.com/libp2p/go-libp2p/core/peer"
	"github.com/multiformats/go-multiaddr"
	"github.com/multiformats/go-multihash"
)

// fsStore is a block store; fsLsys its link system.
type fsStore struct{ m map[string][]byte }

func fsLsys(st *fsStore) ipld.LinkSystem {
	lsys := cidlink.DefaultLinkSystem()
	lsys.StorageReadOpener = func(lc ipld.LinkContext, l ipld.Link) (io.Reader, error) {
		b, ok := st.m[l.Binary()]
		if !ok {
			return nil, ipld.ErrNotExists{}
		}
		return bytes.NewReader(b), nil
	}
	lsys.StorageWriteOpener = func(lc ipld.LinkContext) (io.Writer, ipld.BlockWriteCommitter, error) {
		var buf bytes.Buffer
		return &buf, func(l ipld.Link) error {
			st.m[l.Binary()] = append([]byte{}, buf.Bytes()...)
			return nil
		}, nil
	}
	return lsys
}

type fsRT struct {
	fn func(req *http.Request) (*http.Response, error)
}

func (r *fsRT) RoundTrip(req *http.Request) (*http.Response, error) { return r.fn(req) }

// C01, whole stack: the REAL Subscriber.SyncAdChain (segmented loop, selector
// construction, hook wrapping, notification, latest-sync bookkeeping) over the
// REAL ipnisync sync client (NewSyncer plain-HTTP fallback, fetch, fetchBlock,
// walkFetch), go-ipld-prime's selector compiler / traversal / dag-cbor codec,
// against a harness HTTP network serving a real 3-advertisement chain. No model
// syncer: this is the cross-check of the model syncer's contract (Appendix B.1)
// and of C01's clauses on the code users run. For every subset of blocks
// already local, depth limit, stop position (latest-synced or explicit),
// segment size and start head: the hook sees exactly the requested segment once,
// newest to oldest; only missing blocks are requested, each once; count, head,
// notification and latest-synced value follow the specification.
func VerifC01_FullStack() {
	const n = 3
	multicodec.RegisterEncoder(cid.DagCBOR, dagcbor.Encode)
	multicodec.RegisterDecoder(cid.DagCBOR, dagcbor.Decode)
	lp := cidlink.LinkPrototype{Prefix: cid.Prefix{Version: 1, Codec: cid.DagCBOR, MhType: multihash.SHA2_256, MhLength: 16}}
	pub := &fsStore{m: map[string][]byte{}}
	publs := fsLsys(pub)
	chain := make([]cid.Cid, n)
	var prev ipld.Link
	for i := n - 1; i >= 0; i-- {
		p := prev
		nd := fluent.MustBuildMap(basicnode.Prototype.Map, 2, func(na fluent.MapAssembler) {
			na.AssembleEntry("ContextID").AssignString(string(rune('a' + i)))
			if p != nil {
				na.AssembleEntry("PreviousID").AssignLink(p)
			}
		})
		l, err := publs.Store(ipld.LinkContext{}, lp, nd)
		verif_Assume(err == nil)
		chain[i] = l.(cidlink.Link).Cid
		prev = l
	}

	local := verif_Choose("localMask", 0, 1<<n-1)
	depth := verif_Choose("depthLimit", 0, n)  // per-call depth limit; 0 = none
	stopKind := verif_Choose("stop", 0, 2)      // 0 none, 1 latest-synced = oldest block, 2 explicit stop = oldest block
	seg := verif_Choose("segDepthLimit", 0, 2) // 0 = no segmentation
	start := verif_Choose("start", 0, 1)
	if local == 1<<n-1 {
		start = 0
	}

	st := &fsStore{m: map[string][]byte{}}
	for i := 0; i < n; i++ {
		if local&(1<<i) != 0 {
			k := cidlink.Link{Cid: chain[i]}.Binary()
			st.m[k] = pub.m[k]
		}
	}
	requested := map[int]int{}
	oldRT := http.DefaultTransport
	http.DefaultTransport = &fsRT{fn: func(req *http.Request) (*http.Response, error) {
		for i, c := range chain {
			if strings.HasSuffix(req.URL.Path, "/"+c.String()) {
				requested[i]++
				return &http.Response{StatusCode: 200, Body: io.NopCloser(bytes.NewReader(pub.m[cidlink.Link{Cid: c}.Binary()])), Header: http.Header{}}, nil
			}
		}
		return &http.Response{StatusCode: 404, Body: io.NopCloser(bytes.NewReader(nil)), Header: http.Header{}}, nil
	}}
	defer func() { http.DefaultTransport = oldRT }()

	segLimit := int64(-1)
	if seg > 0 {
		segLimit = int64(seg)
	}
	v := newVSub(chain, -1, 0, segLimit, true)
	ssb := builder.NewSelectorSpecBuilder(basicnode.Prototype.Any)
	v.s.adsSelectorSeq = ssb.ExploreFields(func(efsb builder.ExploreFieldsSpecBuilder) {
		efsb.Insert("PreviousID", ssb.ExploreRecursiveEdge())
	}).Node()
	v.s.ipniSync = ipnisync.NewSync(fsLsys(st), v.dispatch)
	hnd := v.s.getOrCreateHandler(v.peer.ID)
	hnd.syncer = nil // the real sync client is created by makeSyncer
	addr, err := multiaddr.NewMultiaddr("/ip4/127.0.0.1/tcp/80/http")
	verif_Assume(err == nil)
	pinfo := peer.AddrInfo{ID: v.peer.ID, Addrs: []multiaddr.Multiaddr{addr}}

	stopIdx := -1
	opts := []SyncOption{WithHeadAdCid(chain[start])}
	switch stopKind {
	case 1:
		stopIdx = n - 1
		verif_Assume(v.s.SetLatestSync(v.peer.ID, chain[stopIdx]) == nil)
	case 2:
		stopIdx = n - 1
		opts = append(opts, WithStopAdCid(chain[stopIdx]))
	}
	if depth > 0 {
		opts = append(opts, ScopedDepthLimit(int64(depth)))
	}
	got, serr := v.s.SyncAdChain(context.Background(), pinfo, opts...)
	verif_Reach("synced")

	var want []int
	for i := start; i < n; i++ {
		if i == stopIdx {
			break
		}
		if depth > 0 && len(want) >= depth {
			break
		}
		want = append(want, i)
	}
	verif_Assert(serr == nil && got == chain[start], "the sync succeeds and returns the head it was given")
	if serr != nil {
		return
	}
	verif_Assert(len(v.log) == len(want), "the block hook is called once per block of the requested segment, whatever the segment size and whatever is already local")
	for k, i := range want {
		if k < len(v.log) {
			verif_Assert(v.log[k] == chain[i], "hook calls are newest to oldest")
		}
	}
	for i := 0; i < n; i++ {
		inSeg := false
		for _, w := range want {
			if w == i {
				inSeg = true
			}
		}
		_, have := st.m[cidlink.Link{Cid: chain[i]}.Binary()]
		if local&(1<<i) != 0 {
			verif_Assert(requested[i] == 0, "a block already in the local store is not requested from the publisher")
		} else if inSeg {
			verif_Assert(requested[i] == 1 && have, "each missing block of the segment is requested exactly once and stored")
		} else {
			verif_Assert(requested[i] == 0 && !have, "no block beyond the stop point or the depth limit is requested or stored")
		}
	}
}
