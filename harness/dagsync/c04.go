package dagsync

import (
	"context"
	"fmt"

	"github.com/ipfs/go-cid"
	cidlink "github.com/ipld/go-ipld-prime/linking/cid"
	"github.com/ipni/go-libipni/announce"
	"github.com/ipni/go-libipni/dagsync/ipnisync"
	"github.com/libp2p/go-libp2p/core/peer"
)

// fault kinds for one sync
const (
	c04HeadErr = iota
	c04SyncFault
	c04HookFail
	c04Cancelled
	c04NoSyncer
)

func c04inject(v *vSub, kind int, n int) (ctx context.Context) {
	ctx = context.Background()
	switch kind {
	case c04HeadErr:
		v.sy.headErr = c04faultErr()
	case c04SyncFault:
		v.sy.failSync = verif_Choose("faultAtSyncCall", 1, n)
		v.sy.failAt = verif_Choose("faultAtBlock", 1, n)
		v.sy.faultErr = c04faultErr()
	case c04HookFail:
		v.failHookAt = verif_Choose("hookFailsAtCall", 1, n)
	case c04Cancelled:
		c, cancel := context.WithCancel(context.Background())
		cancel()
		ctx = c
	}
	return ctx
}

// the error of an injected transport fault: a plain error, the HTTP client's own
// time limit on a stalled response (matches context.DeadlineExceeded), or a
// request the transport reports as cancelled — none of them means that the
// subscriber is shutting down
func c04faultErr() error {
	switch verif_Choose("faultError", 0, 2) {
	case 1:
		return fmt.Errorf("model: fetch failed: %w", vTimeoutErr{})
	case 2:
		return fmt.Errorf("model: fetch failed: %w", context.Canceled)
	}
	return errModelFault
}

func c04clear(v *vSub) {
	v.sy.headErr = nil
	v.sy.failSync, v.sy.failAt, v.sy.syncs = 0, 0, 0
	v.failHookAt, v.hooks = 0, 0
	v.log = nil
	v.sy.reqs = nil
}

// C04 (a)+(c), C03 (e): a failed explicit sync returns an error and an
// undefined CID, changes no latest-synced value and emits no notification;
// the same call repeated once the publisher answers correctly ends as a
// fault-free run does.
func VerifC04_ExplicitSyncFault() {
	n := verif_Choose("chainLen", 1, 3)
	chain := c01chain(n)
	N := int64(n)
	seg := c01int("segDepthLimit", -1, N+1)
	depth := c01int("adsDepthLimit", -1, N+1)
	// the segment size is configured on the subscriber or given with the call
	var opts []SyncOption
	subSeg := seg
	if seg > 0 && verif_Bool("segmentSizeGivenPerCall") {
		subSeg = -1
		opts = append(opts, ScopedSegmentDepthLimit(seg))
	}
	v := newVSub(chain, depth, 0, subSeg, true)
	latestPos := verif_Choose("latestSyncPos", 0, n) // n = none
	latestBefore := cid.Undef
	if latestPos < n {
		latestBefore = chain[latestPos]
		verif_Assume(v.s.SetLatestSync(v.peer.ID, latestBefore) == nil)
	}
	verif_Assume(latestBefore != chain[0]) // otherwise there is nothing to sync and nothing can fail but the head query
	kind := verif_Choose("faultKind", c04HeadErr, c04Cancelled)
	ctx := c04inject(v, kind, n)

	got, err := v.s.SyncAdChain(ctx, v.peer, opts...)
	verif_Reach("first call returned")
	events := v.drain()
	limit := depth
	if limit < 1 {
		limit = 0
	}
	want := c01want(chain, 0, latestBefore, limit)
	// (documented: the hook's failure signal works in segmented syncs, and a sync whose
	// depth limit does not exceed the segment size is not segmented)
	if kind == c04HookFail && seg > 0 && (limit <= 0 || limit > seg) && v.failHookAt <= len(want) {
		verif_Assert(err != nil, "a failure the hook signals in a segmented sync fails the sync, wherever the segment size was configured")
	}
	if err != nil {
		verif_Reach("failed")
		verif_Assert(got == cid.Undef, "a failed sync returns no CID")
		verif_Assert(v.latest() == latestBefore, "a failed sync leaves the latest-synced value unchanged")
		verif_Assert(len(events) == 0, "a failed explicit sync emits no notification")
		if kind == c04HeadErr {
			verif_Assert(len(v.sy.reqs) == 0 && len(v.log) == 0, "a rejected or failed head query causes no sync")
		}
	} else {
		// the injected fault position was beyond what this sync needed
		verif_Assert(kind == c04SyncFault || kind == c04HookFail, "only a fault that is never reached lets the sync succeed")
		verif_Assert(got == chain[0] && c01sameLog(v.log, want) && v.latest() == chain[0] && len(events) == 1, "an unaffected sync completes normally")
		return
	}
	// convergence: the publisher answers correctly again
	c04clear(v)
	got2, err2 := v.s.SyncAdChain(context.Background(), v.peer, opts...)
	verif_Reach("second call returned")
	events2 := v.drain()
	verif_Assert(err2 == nil && got2 == chain[0], "once the publisher answers correctly the same sync succeeds")
	verif_Assert(c01sameLog(v.log, want), "the retried sync reports the same blocks as a run without fault")
	verif_Assert(v.latest() == chain[0], "the retried sync leaves the same latest-synced value as a run without fault")
	verif_Assert(len(events2) == 1 && events2[0].Cid == chain[0] && events2[0].Count == len(want) && events2[0].Err == nil, "the retried sync emits the one success notification")
}

// C04 (b): a failed announce-triggered sync emits exactly one notification
// carrying the error and the announced CID, leaves latest unchanged, and the
// CID can be announced (and is delivered) again.
func VerifC04_AnnouncedSyncFault() {
	n := verif_Choose("chainLen", 1, 3)
	chain := c01chain(n)
	N := int64(n)
	seg := c01int("segDepthLimit", -1, N+1)
	v := newVSub(chain, -1, 0, seg, true)
	rcv, rerr := announce.NewReceiver(nil, "")
	verif_Assume(rerr == nil)
	v.s.receiver = rcv
	latestPos := verif_Choose("latestSyncPos", 1, n) // n = none; never the announced head
	latestBefore := cid.Undef
	if latestPos < n {
		latestBefore = chain[latestPos]
		verif_Assume(v.s.SetLatestSync(v.peer.ID, latestBefore) == nil)
	}
	kind := verif_Choose("faultKind", c04SyncFault, c04NoSyncer)
	hnd := v.s.getOrCreateHandler(v.peer.ID)
	if kind == c04NoSyncer {
		// no usable address for the publisher: the sync client cannot be created
		hnd.syncer = nil
		v.s.ipniSync = ipnisync.NewSync(cidlink.DefaultLinkSystem(), nil)
	}
	ctx := c04inject(v, kind, n)

	// the announcement arrives through the receiver, as in production
	verif_Assume(rcv.Direct(context.Background(), chain[0], peer.AddrInfo{ID: v.peer.ID}) == nil)
	amsg, nerr := rcv.Next(context.Background())
	verif_Assume(nerr == nil)
	hnd.pendingMsg.Store(&amsg)
	hnd.asyncSyncAdChain(ctx)
	verif_Reach("handled")
	events := v.drain()
	if kind == c04Cancelled {
		// a cancelled context abandons the pending announcement before it is taken:
		// this happens only on shutdown and is C15's subject
		return
	}
	failed := v.latest() != chain[0]
	if !failed {
		verif_Assert(len(events) == 1 && events[0].Err == nil, "an unaffected announce-triggered sync completes normally")
		return
	}
	verif_Reach("failed")
	verif_Assert(v.latest() == latestBefore, "a failed announce-triggered sync leaves the latest-synced value unchanged")
	verif_Assert(len(events) == 1, "a failed announce-triggered sync emits exactly one notification")
	if len(events) == 1 {
		verif_Assert(events[0].Err != nil && events[0].Cid == chain[0] && events[0].PeerID == v.peer.ID, "the notification carries the error, the announced CID and the publisher")
	}
	// the same CID may be announced again and is delivered
	verif_Assume(rcv.Direct(context.Background(), chain[0], peer.AddrInfo{ID: v.peer.ID}) == nil)
	// (if the CID were still in the duplicate filter nothing would be queued and
	// this Next could never return: reported as a hang)
	again, aerr := rcv.Next(context.Background())
	verif_Assert(aerr == nil && again.Cid == chain[0], "after a failed announce-triggered sync the CID can be announced again and is delivered")
	if aerr != nil {
		return
	}
	// the earlier failure does not impair the later sync of the same publisher:
	// it runs and reports exactly once (success once the fault is gone, the same
	// error while the publisher still has no usable address)
	hnd.pendingMsg.Store(&again)
	hnd.asyncSyncAdChain(context.Background())
	events3 := v.drain()
	verif_Assert(len(events3) == 1 && events3[0].Cid == chain[0], "a later sync of the same publisher runs and reports once, whatever failed before")
	if len(events3) == 1 && kind != c04NoSyncer {
		verif_Assert(events3[0].Err == nil && v.latest() == chain[0], "once the fault is gone the re-announced head is synced")
	}
}

// C04 / C14 through the real notification distributor: an announce-triggered
// sync of head X fails (one error notification reaches the listener), X is
// announced again and fails again or — the publisher having recovered — succeeds:
// every one of these syncs is notified to the listener, although they all name
// the same publisher and the same CID.
func VerifC04_RepeatedOutcomesForOneHeadAreAllNotified() {
	n := verif_Choose("chainLen", 1, 2)
	chain := c01chain(n)
	v := newVSub(chain, -1, 0, 0, true)
	go v.s.distributeEvents()
	lis, _ := v.s.OnSyncFinished()
	rcv, rerr := announce.NewReceiver(nil, "")
	verif_Assume(rerr == nil)
	v.s.receiver = rcv
	hnd := v.s.getOrCreateHandler(v.peer.ID)
	failures := verif_Choose("failedAttempts", 1, 2)
	for i := 0; i < failures; i++ {
		v.sy.failSync, v.sy.failAt, v.sy.syncs = 1, 1, 0
		verif_Assume(rcv.Direct(context.Background(), chain[0], peer.AddrInfo{ID: v.peer.ID}) == nil)
		amsg, nerr := rcv.Next(context.Background())
		verif_Assert(nerr == nil && amsg.Cid == chain[0], "the head can be announced (again) and is delivered")
		hnd.pendingMsg.Store(&amsg)
		hnd.asyncSyncAdChain(context.Background())
		ev := <-lis // (a missing notification is reported as a hang)
		verif_Assert(ev.Err != nil && ev.Cid == chain[0] && ev.PeerID == v.peer.ID, "each failed announce-triggered sync is notified, with its error")
	}
	verif_Reach("failures notified")
	v.sy.failSync, v.sy.failAt, v.sy.syncs = 0, 0, 0
	verif_Assume(rcv.Direct(context.Background(), chain[0], peer.AddrInfo{ID: v.peer.ID}) == nil)
	amsg, nerr := rcv.Next(context.Background())
	verif_Assert(nerr == nil && amsg.Cid == chain[0], "after the failures the head can be announced again")
	hnd.pendingMsg.Store(&amsg)
	hnd.asyncSyncAdChain(context.Background())
	ev := <-lis
	verif_Reach("success notified")
	verif_Assert(ev.Err == nil && ev.Cid == chain[0] && ev.Count == n, "once the publisher answers correctly the sync of the same head succeeds and is notified")
	verif_Assert(v.latest() == chain[0], "and recorded")
}
