package dagsync

import (
	"context"
	"time"

	"github.com/ipfs/go-cid"
	"github.com/ipni/go-libipni/announce"
	"github.com/libp2p/go-libp2p/core/peer"
)

// newLiveSub: a hand-built subscriber with its background goroutines running
// (watcher, event distributor, idle-handler cleaner) and a receiver without
// pubsub topic.
func newLiveSub(chain []cid.Cid, maxAsync int) *vSub {
	v := newVSub(chain, -1, 0, 0, true)
	rcv, err := announce.NewReceiver(nil, "")
	verif_Assume(err == nil)
	v.s.receiver = rcv
	v.s.watchDone = make(chan struct{})
	// the cleaner's timer never fires in the model; natively a zero TTL would
	// make it spin and drop the pre-built handlers
	v.s.idleHandlerTTL = time.Hour
	if maxAsync > 0 {
		v.s.syncSem = make(chan struct{}, maxAsync)
	}
	go v.s.watch()
	go v.s.distributeEvents()
	go v.s.idleHandlerCleaner()
	return v
}

// C15: Close lets a running explicit sync finish, returns only when all syncs
// ended, is idempotent and may race with syncs, announcements and listeners;
// afterwards nothing more is reported and every entry point returns promptly.
func VerifC15_CloseRaces() {
	chain := c01chain(2)
	v := newLiveSub(chain, 0)
	v.sy.yield = true
	closeReturned := false
	hooksAfterClose := 0
	inner := v.s.generalBlockHook
	v.s.generalBlockHook = func(p peer.ID, c cid.Cid, a SegmentSyncActions) {
		if closeReturned {
			hooksAfterClose++
		}
		inner(p, c, a)
	}

	syncDone := make(chan error, 1)
	go func() { // an explicit sync racing with Close
		_, err := v.s.SyncAdChain(context.Background(), v.peer)
		syncDone <- err
	}()
	lisDone := make(chan int, 1)
	go func() { // a listener registering, reading and cancelling, racing with Close
		ch, cancel := v.s.OnSyncFinished()
		n := 0
		if verif_Bool("listenerCancels") {
			cancel()
		}
		for range ch {
			n++
		}
		lisDone <- n
	}()
	if verif_Bool("announcementArrives") {
		go func() { // an announcement racing with Close
			_ = v.s.Announce(context.Background(), chain[0], v.peer)
		}()
	}
	closers := 1 + verif_Choose("extraCloser", 0, 1)
	closed := make(chan error, closers)
	for i := 0; i < closers; i++ {
		go func() { closed <- v.s.Close() }()
	}
	for i := 0; i < closers; i++ {
		verif_Assert(<-closed == nil, "Close returns nil for every caller")
	}
	closeReturned = true
	verif_Reach("closed")
	serr := <-syncDone
	n := <-lisDone
	verif_Assert(n <= 2, "a listener gets each notification at most once")
	// an explicit sync is either refused at the door (Close had begun: it asked
	// nothing of the publisher) or, once running, allowed to finish
	if serr != nil {
		// (only the explicit sync queries the head; block requests may also come from the
		// announce-triggered sync of the same publisher)
		verif_Assert(v.sy.headQueries == 0, "an explicit sync that was running when Close began is allowed to finish")
	}

	// afterwards: every entry point returns promptly (a call that cannot return is reported as a hang)
	_, err := v.s.SyncAdChain(context.Background(), v.peer)
	verif_Assert(err != nil, "an explicit sync after Close is refused")
	verif_Assert(v.s.SyncEntries(context.Background(), v.peer, chain[0]) != nil, "an entries sync after Close is refused")
	_, err = v.s.SyncAdChain(context.Background(), v.peer)
	verif_Assert(err != nil, "a further explicit sync after Close is refused as well (no call leaves the subscriber locked)")
	verif_Assert(v.s.SyncOneEntry(context.Background(), v.peer, chain[0]) != nil, "a single-entry sync after Close is refused")
	verif_Assert(v.s.Announce(context.Background(), chain[0], v.peer) != nil, "an announcement after Close is refused")
	ch, cancel := v.s.OnSyncFinished()
	cancel()
	for range ch {
		verif_Assert(false, "no notification after Close")
	}
	verif_Assert(v.s.Close() == nil, "Close can be repeated")
	_ = v.s.GetLatestSync(v.peer.ID)
	_ = v.s.RemoveHandler(v.peer.ID)
	verif_Quiesce()
	verif_Reach("post-close calls returned")
	verif_Assert(hooksAfterClose == 0, "no block-hook call after Close returned")
	lt := verif_LiveThreads()
	verif_Assert(lt <= 0, "no goroutine started by the subscriber remains after Close")
}

// C15: Close with a concurrency limit while an announce-triggered sync is
// still waiting for a free slot: Close returns, nothing is left behind.
func VerifC15_CloseWithWaitingAnnounce() {
	chainA := []cid.Cid{vCid(11)}
	chainB := []cid.Cid{vCid(21)}
	v := newLiveSub(chainA, 1) // at most one announce-triggered sync at a time
	pidB := vPeerID("publisher-2")
	syB := v.addPublisher(pidB, chainB)
	v.sy.yield, syB.yield = true, true
	// two publishers announce: one sync runs, the other waits for the slot
	verif_Assume(v.s.Announce(context.Background(), chainA[0], v.peer) == nil)
	verif_Assume(v.s.Announce(context.Background(), chainB[0], peer.AddrInfo{ID: pidB}) == nil)
	if verif_Bool("letThemStart") {
		verif_Yield()
	}
	verif_Assert(v.s.Close() == nil, "Close returns while an announce-triggered sync is waiting for a slot")
	verif_Reach("closed")
	verif_Quiesce()
	verif_Assert(verif_LiveThreads() <= 0, "no goroutine started by the subscriber remains after Close")
	verif_Assert(v.s.Close() == nil, "Close can be repeated")
}

// C15: Close is complete and final also when the receiver reports an error
// while shutting down (its pubsub topic cannot be left): the error is
// returned, but every sync has ended, the listener channels are closed and
// nothing is reported afterwards. Pubsub is the contract model (symbolic runs
// only; there is no libp2p host here).
func VerifC15_CloseWhenReceiverCloseFails() {
	if !verif_Symbolic() {
		verif_Reach("closed")
		return
	}
	chain := c01chain(2)
	v := newVSub(chain, -1, 0, 0, true)
	rcv, err := announce.NewReceiver(vHost{}, "/indexer/ingest/model")
	verif_Assume(err == nil)
	v.s.receiver = rcv
	v.s.watchDone = make(chan struct{})
	v.s.idleHandlerTTL = time.Hour
	v.sy.yield = true
	go v.s.watch()
	go v.s.distributeEvents()
	go v.s.idleHandlerCleaner()
	closeReturned := false
	hooksAfterClose := 0
	inner := v.s.generalBlockHook
	v.s.generalBlockHook = func(p peer.ID, c cid.Cid, a SegmentSyncActions) {
		if closeReturned {
			hooksAfterClose++
		}
		inner(p, c, a)
	}
	evch, _ := v.s.OnSyncFinished()
	fails := verif_Choose("topicCloseFails", 0, 1) == 1
	verif_PubsubTopicCloseFails(fails)
	if verif_Bool("announcedSyncInFlight") {
		verif_Assume(v.s.Announce(context.Background(), chain[0], v.peer) == nil)
	}
	cerr := v.s.Close()
	closeReturned = true
	verif_Reach("closed")
	if !fails {
		verif_Assert(cerr == nil, "Close succeeds")
	}
	verif_Assert(v.sy.active == 0, "when Close returns no sync is still running, whatever it returns")
	for range evch { // (a listener channel that is never closed is reported as a hang)
	}
	verif_Assert(v.s.Close() == nil || fails, "a second Close returns promptly")
	_, serr := v.s.SyncAdChain(context.Background(), v.peer)
	verif_Assert(serr != nil, "entry points fail after Close")
	verif_Quiesce()
	verif_Assert(hooksAfterClose == 0, "no block is reported after Close returned")
}

// C15 (Close returns only when all syncs have ended — for EVERY caller): an
// explicit sync is held up by a stalled publisher while two callers close the
// subscriber one after the other; neither returns before the sync has ended.
func VerifC15_EveryCloseCallerWaits() {
	chain := c01chain(2)
	v := newLiveSub(chain, 0)
	v.sy.gate = make(chan struct{})
	syncDone := make(chan error, 1)
	go func() {
		_, err := v.s.SyncAdChain(context.Background(), v.peer)
		syncDone <- err
	}()
	verif_Quiesce() // the explicit sync is in flight
	verif_Assume(v.sy.active == 1)
	ret := make(chan int, 2)
	go func() { _ = v.s.Close(); ret <- 1 }()
	verif_Quiesce()
	go func() { _ = v.s.Close(); ret <- 2 }()
	verif_Quiesce()
	select {
	case <-ret:
		verif_Assert(v.sy.active == 0, "no Close caller returns while an explicit sync is still running")
	default:
	}
	verif_Reach("both closing")
	close(v.sy.gate) // the publisher answers: the sync finishes
	<-ret
	<-ret
	verif_Assert(v.sy.active == 0 && <-syncDone == nil, "the running explicit sync was allowed to finish")
	verif_Assert(v.s.Close() == nil, "Close can be repeated")
}
