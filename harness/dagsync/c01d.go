package dagsync

import (
	"github.com/ipfs/go-cid"
	"github.com/ipld/go-ipld-prime"
	"github.com/ipld/go-ipld-prime/datamodel"
	cidlink "github.com/ipld/go-ipld-prime/linking/cid"
	basicnode "github.com/ipld/go-ipld-prime/node/basic"
	"github.com/ipld/go-ipld-prime/traversal/selector"
	"github.com/ipld/go-ipld-prime/traversal/selector/builder"
	"github.com/ipni/go-libipni/announce"
	"github.com/libp2p/go-libp2p/core/peer"
)

func announceFor(c cid.Cid, p peer.ID) announce.Announce {
	return announce.Announce{Cid: c, PeerID: p}
}

func c01limit(label string) selector.RecursionLimit {
	d := int64(verif_Int(label))
	verif_Assume(d >= -1 && d <= 1000000)
	return recursionLimit(d)
}

func c01sameLimit(a, b selector.RecursionLimit) bool {
	if a.Mode() != b.Mode() {
		return false
	}
	return a.Mode() != selector.RecursionLimit_Depth || a.Depth() == b.Depth()
}

// C01 (selector algebra): the limit and stop link put into the selector are
// read back; rewriting the limit keeps the stop link and the sequence.
func VerifC01_SelectorAlgebra() {
	ssb := builder.NewSelectorSpecBuilder(basicnode.Prototype.Any)
	var seq ipld.Node
	switch verif_Choose("sequence", 0, 2) {
	case 0:
		seq = ssb.ExploreAll(ssb.ExploreRecursiveEdge()).Node()
	case 1:
		seq = ssb.ExploreFields(func(efsb builder.ExploreFieldsSpecBuilder) {
			efsb.Insert("PreviousID", ssb.ExploreRecursiveEdge())
		}).Node()
	case 2:
		seq = nil // default sequence
	}
	var stop ipld.Link
	if verif_Bool("hasStop") {
		stop = cidlink.Link{Cid: vCid(7)}
	}
	l := c01limit("limit")
	sel := ExploreRecursiveWithStopNode(l, seq, stop)
	got, ok := getRecursionLimit(sel)
	verif_Reach("built")
	verif_Assert(ok && c01sameLimit(got, l), "the recursion limit put into the selector is read back")
	gs, sok := getStopNode(sel)
	verif_Assert(sok == (stop != nil), "a stop link is found exactly when one was given")
	if stop != nil && sok {
		verif_Assert(gs.(cidlink.Link).Cid == stop.(cidlink.Link).Cid, "the stop link is read back")
	}
	l2 := c01limit("newLimit")
	sel2, ok2 := withRecursionLimit(sel, l2)
	verif_Assert(ok2, "the limit of a recursive selector can be rewritten")
	if !ok2 {
		return
	}
	got2, ok3 := getRecursionLimit(sel2)
	verif_Assert(ok3 && c01sameLimit(got2, l2), "the rewritten selector carries the new limit")
	gs2, sok2 := getStopNode(sel2)
	verif_Assert(sok2 == (stop != nil), "rewriting the limit keeps the presence of the stop link")
	if stop != nil && sok2 {
		verif_Assert(gs2.(cidlink.Link).Cid == stop.(cidlink.Link).Cid, "rewriting the limit keeps the stop link")
	}
	r1, e1 := sel.LookupByString(selector.SelectorKey_ExploreRecursive)
	r2, e2 := sel2.LookupByString(selector.SelectorKey_ExploreRecursive)
	verif_Assume(e1 == nil && e2 == nil)
	s1, e1 := r1.LookupByString(selector.SelectorKey_Sequence)
	s2, e2 := r2.LookupByString(selector.SelectorKey_Sequence)
	verif_Assert(e1 == nil && e2 == nil && datamodel.DeepEqual(s1, s2), "rewriting the limit keeps the rest of the selector (sequence)")
	verif_Assert(r2.Length() == r1.Length(), "rewriting the limit adds or drops no selector entries")

	// a selector without a top-level recursion has no limit to read or rewrite
	plain := ssb.ExploreAll(ssb.Matcher()).Node()
	_, okp := getRecursionLimit(plain)
	_, okw := withRecursionLimit(plain, l2)
	verif_Assert(!okp && !okw, "a non-recursive selector has no recursion limit")
}
