package pcache

import (
	"bytes"
	"context"
	"encoding/json"
	"io"
	"net/http"

	"github.com/ipni/go-libipni/find/model"
	"github.com/libp2p/go-libp2p/core/peer"
)

// an indexer's /providers endpoint, scripted
type c06httpRT struct {
	list []*model.ProviderInfo
}

func (r *c06httpRT) RoundTrip(req *http.Request) (*http.Response, error) {
	body, err := json.Marshal(r.list)
	verif_Assume(err == nil)
	return &http.Response{StatusCode: http.StatusOK, Header: http.Header{}, Body: io.NopCloser(bytes.NewReader(body)), Request: req}, nil
}

// C06 / C07 over the library's own HTTP source (NewHTTPSource, JSON over a
// harness transport): across refreshes in which the indexer's list changes
// order, loses a provider, or reports an older record, every cached provider
// keeps its own identity and never goes back to an older record, and a record
// handed to a reader earlier is not rewritten by a later refresh.
func VerifC06_HTTPSourceRefreshes() {
	pidP := peer.ID([]byte{0x00, 0x01, 0xa1})
	pidQ := peer.ID([]byte{0x00, 0x01, 0xb2})
	mk := func(pid peer.ID, ti int) *model.ProviderInfo {
		return &model.ProviderInfo{AddrInfo: peer.AddrInfo{ID: pid}, LastAdvertisementTime: c06time(ti)}
	}
	rt := &c06httpRT{list: []*model.ProviderInfo{mk(pidP, 2), mk(pidQ, 1)}}
	src, err := NewHTTPSource("http://indexer.example", &http.Client{Transport: rt})
	verif_Assume(err == nil)
	pc, err := New(WithSource(src), WithTTL(c06ttl()), WithRefreshInterval(0), WithPreload(false))
	verif_Assume(err == nil && pc != nil)
	verif_SetClock(0)
	verif_Assert(pc.Refresh(context.Background()) == nil, "the first refresh completes")
	p1, gerr := pc.Get(context.Background(), pidP)
	verif_Assert(gerr == nil && p1 != nil && p1.AddrInfo.ID == pidP && c06timeIdx(p1.LastAdvertisementTime) == 2, "P is cached with its record")
	refreshes := verif_Choose("laterRefreshes", 1, 2)
	tQ := 1
	for i := 0; i < refreshes; i++ {
		switch verif_Choose("indexerListNow", 0, 3) {
		case 0: // other order, Q advanced
			tQ = 3
			rt.list = []*model.ProviderInfo{mk(pidQ, tQ), mk(pidP, 2)}
		case 1: // P regressed at this indexer
			rt.list = []*model.ProviderInfo{mk(pidP, 1), mk(pidQ, tQ)}
		case 2: // P no longer listed (stays visible until its time-to-live has elapsed)
			rt.list = []*model.ProviderInfo{mk(pidQ, tQ)}
		case 3: // unchanged
			rt.list = []*model.ProviderInfo{mk(pidP, 2), mk(pidQ, tQ)}
		}
		verif_Assert(pc.Refresh(context.Background()) == nil, "the refresh completes")
		verif_Reach("refreshed again")
		verif_Assert(p1.AddrInfo.ID == pidP && c06timeIdx(p1.LastAdvertisementTime) == 2, "a record a reader was given is not rewritten by a later refresh")
		gp, e1 := pc.Get(context.Background(), pidP)
		verif_Assert(e1 == nil && gp != nil && gp.AddrInfo.ID == pidP && c06timeIdx(gp.LastAdvertisementTime) == 2, "P keeps its identity and its most recent record")
		gq, e2 := pc.Get(context.Background(), pidQ)
		verif_Assert(e2 == nil && gq != nil && gq.AddrInfo.ID == pidQ && c06timeIdx(gq.LastAdvertisementTime) == tQ, "Q keeps its identity and shows the most recent record reported")
		for _, pi := range pc.List() {
			verif_Assert((pi.AddrInfo.ID == pidP && c06timeIdx(pi.LastAdvertisementTime) == 2) || (pi.AddrInfo.ID == pidQ && c06timeIdx(pi.LastAdvertisementTime) == tQ), "listings agree")
		}
	}
}
