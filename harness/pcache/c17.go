package pcache

import (
	"bytes"
	"context"

	"github.com/ipni/go-libipni/find/model"
	"github.com/libp2p/go-libp2p/core/peer"
)

// symbolic 1-byte peer ID
func c17pid(label string) peer.ID { return peer.ID(verif_Str(label, 1)) }

// metadata variant: absent (nil), empty, or one symbolic byte (equal to or
// different from the looked-up metadata, as the solver chooses)
func c17md(label string) []byte {
	switch verif_Choose(label+"Kind", 0, 2) {
	case 0:
		return nil
	case 1:
		return []byte{}
	}
	return verif_Bytes(label, 1)
}

func c17lists(prefix string, maxK int) ([]peer.AddrInfo, [][]byte) {
	k := verif_Choose(prefix+"Providers", 0, maxK)
	lo := k - 1
	if lo < 0 {
		lo = 0
	}
	m := verif_Choose(prefix+"Metadatas", lo, k+1)
	ps := make([]peer.AddrInfo, k)
	for i := range ps {
		ps[i] = peer.AddrInfo{ID: c17pid(prefix + "ProviderID")}
	}
	var mds [][]byte
	if m > 0 || verif_Bool(prefix+"MetadatasEmptyNotNil") {
		mds = make([][]byte, m)
	}
	for i := range mds {
		mds[i] = c17md(prefix + "Metadata")
	}
	return ps, mds
}

type c17res struct {
	ctxID, md []byte
	pid       peer.ID
}

// specification (DESIGN.md B.7); a metadata list shorter than its provider list
// leaves the remaining providers without metadata of their own
func c17spec(rec *model.ProviderInfo, pid peer.ID, ctxID, md []byte) []c17res {
	out := []c17res{{ctxID, md, rec.AddrInfo.ID}}
	xp := rec.ExtendedProviders
	if xp == nil {
		return out
	}
	emit := func(p peer.AddrInfo, xmd []byte) {
		if p.ID == pid && (len(xmd) == 0 || bytes.Equal(xmd, md)) {
			return
		}
		if len(xmd) == 0 {
			xmd = md
		}
		out = append(out, c17res{ctxID, xmd, p.ID})
	}
	var ctx *model.ContextualExtendedProviders
	for i := range xp.Contextual {
		if xp.Contextual[i].ContextID == string(ctxID) {
			ctx = &xp.Contextual[i] // last one wins
		}
	}
	if ctx != nil {
		for i, p := range ctx.Providers {
			emit(p, c17at(ctx.Metadatas, i))
		}
		if ctx.Override {
			return out
		}
	}
	for i, p := range xp.Providers {
		emit(p, c17at(xp.Metadatas, i))
	}
	return out
}

// an extended provider whose index is beyond the metadata list has no metadata
// of its own ("absent"); surplus metadata entries belong to nobody
func c17at(mds [][]byte, i int) []byte {
	if i < len(mds) {
		return mds[i]
	}
	return nil
}

// C17: expansion of extended providers follows the IPNI rules for any record,
// and never panics on list-length mismatches.
func VerifC17_GetResults() {
	pid := c17pid("mainID")
	rec := &model.ProviderInfo{AddrInfo: peer.AddrInfo{ID: pid}}
	equalLens := true
	if verif_Bool("hasExtended") {
		xp := &model.ExtendedProviders{}
		nctx := verif_Choose("contextualSets", 0, 1+verif_Tier())
		chainMax := 2
		if nctx > 1 {
			chainMax = 1 // with a second contextual set (thorough tier) the chain-level list is kept smaller
		}
		xp.Providers, xp.Metadatas = c17lists("chain", chainMax)
		if len(xp.Providers) != len(xp.Metadatas) {
			equalLens = false
		}
		for i := 0; i < nctx; i++ {
			c := model.ContextualExtendedProviders{Override: verif_Bool("override"), ContextID: verif_Str("setContextID", 1)}
			c.Providers, c.Metadatas = c17lists("ctx", 2-i) // a second set (thorough tier) is kept smaller
			if len(c.Providers) != len(c.Metadatas) {
				equalLens = false
			}
			xp.Contextual = append(xp.Contextual, c)
		}
		rec.ExtendedProviders = xp
	}
	ctxID := verif_Bytes("lookupContextID", 1)
	md := verif_Bytes("lookupMetadata", 1)

	pc := &ProviderCache{write: make(map[peer.ID]*cacheInfo), writeLock: make(chan struct{}, 1)}
	pc.read.Store(&readOnly{m: map[peer.ID]*readProviderInfo{pid: apiToCacheInfo(rec)}})

	res, err := pc.GetResults(context.Background(), pid, ctxID, md)
	verif_Reach("returned")
	if !equalLens && err != nil {
		// list-length mismatch: results or an error, never a panic (implicit)
		return
	}
	verif_Reach("compared")
	verif_Assert(err == nil, "lookup of a cached provider succeeds")
	want := c17spec(rec, pid, ctxID, md)
	verif_Assert(len(res) == len(want), "result count follows the expansion rules")
	if len(res) != len(want) {
		return
	}
	verif_Assert(res[0].Provider == &rec.AddrInfo, "first result is the provider itself")
	for i := range want {
		verif_Assert(bytes.Equal(res[i].ContextID, ctxID), "result carries the looked-up context ID")
		verif_Assert(res[i].Provider != nil && res[i].Provider.ID == want[i].pid, "result provider follows the expansion order")
		verif_Assert(bytes.Equal(res[i].Metadata, want[i].md), "result metadata follows the skip/substitution rules")
	}
}

// c17src is a source that knows exactly one record.
type c17src struct {
	rec *model.ProviderInfo
}

func (s *c17src) String() string { return "c17" }
func (s *c17src) FetchAll(ctx context.Context) ([]*model.ProviderInfo, error) {
	return []*model.ProviderInfo{s.rec}, nil
}
func (s *c17src) Fetch(ctx context.Context, pid peer.ID) (*model.ProviderInfo, error) {
	if pid == s.rec.AddrInfo.ID {
		return s.rec, nil
	}
	return nil, nil
}

// C17 (for any record, however it entered the cache): the same record gives the
// same expansion whether it was cached by a refresh, by a lookup miss, or by a
// lookup miss followed by a refresh that sees a newer version of it.
func VerifC17_ExpansionWhateverTheEntryPath() {
	pid := peer.ID("M")
	x1, x2 := peer.AddrInfo{ID: "X"}, peer.AddrInfo{ID: "Y"}
	rec := &model.ProviderInfo{AddrInfo: peer.AddrInfo{ID: pid}, LastAdvertisementTime: c06time(1)}
	xp := &model.ExtendedProviders{Providers: []peer.AddrInfo{x1}, Metadatas: [][]byte{c17md("chainMetadata")}}
	xp.Contextual = []model.ContextualExtendedProviders{{
		ContextID: verif_Str("setContextID", 1), Override: verif_Bool("override"),
		Providers: []peer.AddrInfo{x2, {ID: pid}}, Metadatas: [][]byte{c17md("ctxMetadata"), c17md("ctxMainMetadata")},
	}}
	rec.ExtendedProviders = xp
	ctxID := verif_Bytes("lookupContextID", 1)
	md := verif_Bytes("lookupMetadata", 1)

	src := &c17src{rec: rec}
	pc := &ProviderCache{sources: []ProviderSource{src}, write: make(map[peer.ID]*cacheInfo), writeLock: make(chan struct{}, 1), ttl: c06ttl()}
	verif_SetClock(0)
	switch verif_Choose("entryPath", 0, 2) {
	case 0:
		verif_Assume(pc.Refresh(context.Background()) == nil)
	case 1: // lookup miss (no preload, or the provider appeared between refreshes)
	case 2:
		_, gerr := pc.Get(context.Background(), pid)
		verif_Assume(gerr == nil)
		newer := *rec
		newer.LastAdvertisementTime = c06time(2)
		if verif_Bool("newerRecordChangesTheContextualSet") {
			// the same context ID, other content: the expansion follows the newer record
			nxp := *xp
			nxp.Contextual = []model.ContextualExtendedProviders{{
				ContextID: xp.Contextual[0].ContextID, Override: !xp.Contextual[0].Override,
				Providers: []peer.AddrInfo{{ID: "Z"}, {ID: pid}}, Metadatas: [][]byte{c17md("newCtxMetadata"), c17md("newCtxMainMetadata")},
			}}
			newer.ExtendedProviders = &nxp
		}
		src.rec = &newer
		rec = &newer
		verif_Assume(pc.Refresh(context.Background()) == nil)
	}
	res, err := pc.GetResults(context.Background(), pid, ctxID, md)
	verif_Reach("expanded")
	verif_Assert(err == nil, "lookup succeeds")
	want := c17spec(rec, pid, ctxID, md)
	verif_Assert(len(res) == len(want), "result count follows the expansion rules whatever path cached the record")
	for i := range want {
		if i < len(res) {
			verif_Assert(res[i].Provider != nil && res[i].Provider.ID == want[i].pid && bytes.Equal(res[i].Metadata, want[i].md) && bytes.Equal(res[i].ContextID, ctxID),
				"results follow the expansion rules whatever path cached the record")
		}
	}
}

// C17 under concurrency (every lookup gets the full expansion, whoever cached
// the record): two lookups miss the same provider at the same time, or a lookup
// misses while a refresh is storing that provider. Each of them returns the
// provider followed by the context-level set for the queried context ID (which
// overrides the chain-level set here) — never the chain-level expansion of a
// record stored without its per-context index.
func VerifC17_ConcurrentMisses() {
	pid := peer.ID("M")
	x1, x2 := peer.AddrInfo{ID: "X"}, peer.AddrInfo{ID: "Y"}
	rec := &model.ProviderInfo{AddrInfo: peer.AddrInfo{ID: pid}, LastAdvertisementTime: c06time(1)}
	rec.ExtendedProviders = &model.ExtendedProviders{
		Providers: []peer.AddrInfo{x1}, Metadatas: [][]byte{{0xc1}},
		Contextual: []model.ContextualExtendedProviders{{ContextID: "ctx", Override: true, Providers: []peer.AddrInfo{x2}, Metadatas: [][]byte{{0xc2}}}},
	}
	src := &c17src{rec: rec}
	pc := &ProviderCache{sources: []ProviderSource{src}, write: make(map[peer.ID]*cacheInfo), writeLock: make(chan struct{}, 1), ttl: c06ttl()}
	verif_SetClock(0)
	ctxID, md := []byte("ctx"), []byte{0xdd}
	want := c17spec(rec, pid, ctxID, md)
	lookup := func() {
		res, err := pc.GetResults(context.Background(), pid, ctxID, md)
		verif_Assert(err == nil && len(res) == len(want), "every lookup gets the full expansion for its context ID")
		for i := range want {
			if i < len(res) {
				verif_Assert(res[i].Provider != nil && res[i].Provider.ID == want[i].pid && bytes.Equal(res[i].Metadata, want[i].md), "results follow the expansion rules whoever cached the record")
			}
		}
	}
	done := make(chan struct{}, 2)
	other := verif_Bool("otherWriterIsARefresh")
	go func() {
		if other {
			_ = pc.Refresh(context.Background())
		} else {
			lookup()
		}
		done <- struct{}{}
	}()
	go func() {
		lookup()
		done <- struct{}{}
	}()
	<-done
	<-done
	verif_Reach("both returned")
	lookup() // and a later, uncontended lookup agrees
}
