package pcache

import (
	"context"
	"time"

	"github.com/ipni/go-libipni/find/model"
	"github.com/libp2p/go-libp2p/core/peer"
)

type c07countingSource struct {
	inner ProviderSource
	n     *int
}

func (c *c07countingSource) String() string { return "counting" }
func (c *c07countingSource) Fetch(ctx context.Context, p peer.ID) (*model.ProviderInfo, error) {
	return c.inner.Fetch(ctx, p)
}
func (c *c07countingSource) FetchAll(ctx context.Context) ([]*model.ProviderInfo, error) {
	*c.n++
	return c.inner.FetchAll(ctx)
}

func c07timer() *time.Timer { return time.NewTimer(time.Hour) }
