package pcache

import (
	"context"
	"github.com/ipni/go-libipni/find/model"

	"github.com/libp2p/go-libp2p/core/peer"
)

type c07snap struct {
	keysM, keysU []peer.ID
	valsM, valsU []*readProviderInfo
	times        []string
}

func c07capture(ro *readOnly) c07snap {
	var s c07snap
	for _, pid := range []peer.ID{"P", "Q"} {
		if v, ok := ro.m[pid]; ok {
			s.keysM = append(s.keysM, pid)
			s.valsM = append(s.valsM, v)
			if v != nil {
				s.times = append(s.times, v.provider.LastAdvertisementTime)
			}
		}
		if v, ok := ro.u[pid]; ok {
			s.keysU = append(s.keysU, pid)
			s.valsU = append(s.valsU, v)
			if v != nil {
				s.times = append(s.times, v.provider.LastAdvertisementTime)
			}
		}
	}
	return s
}

func c07same(a, b c07snap, ro *readOnly) bool {
	if len(a.keysM) != len(b.keysM) || len(a.keysU) != len(b.keysU) || len(a.times) != len(b.times) {
		return false
	}
	if len(ro.m) != len(a.keysM) || len(ro.u) != len(a.keysU) {
		return false
	}
	for i := range a.keysM {
		if a.keysM[i] != b.keysM[i] || a.valsM[i] != b.valsM[i] {
			return false
		}
	}
	for i := range a.keysU {
		if a.keysU[i] != b.keysU[i] || a.valsU[i] != b.valsU[i] {
			return false
		}
	}
	for i := range a.times {
		if a.times[i] != b.times[i] {
			return false
		}
	}
	return true
}

// C07 (a): lookups, listings and result expansion for cached providers
// complete while a writer holds the write lock (they never wait for it).
func VerifC07_ReadsDoNotWait() {
	c06pids = []peer.ID{"P"}
	w := c06new()
	w.refresh(false, false)
	verif_Assume(w.visible["P"])
	if verif_Bool("secondRefresh") {
		w.refresh(false, false) // cross the update-map / main-map layouts
		verif_Assume(w.visible["P"])
	}
	negative := verif_Bool("negativeEntryCached")
	if negative {
		// an unknown provider was looked up before and is remembered as absent
		for _, s := range w.srcs {
			s.fail = false
		}
		_, nerr := w.pc.Get(context.Background(), "Q")
		verif_Assume(nerr == nil)
	}
	// a refresh or miss-fetch is in progress: the one-slot write lock is taken
	w.pc.writeLock <- struct{}{}
	if negative {
		qb := w.fetches()
		q, qerr := w.pc.Get(context.Background(), "Q")
		verif_Assert(qerr == nil && q == nil && w.fetches() == qb, "a provider remembered as absent is answered from the cache, without waiting for the writer")
	}
	if verif_Bool("refreshIntervalElapsed") {
		// the read that notices the elapsed interval starts the automatic refresh
		// but does not wait for it either
		w.pc.refreshIn = 1
		w.pc.refreshTimer = c07timer()
		w.pc.needsRefresh.Store(true)
	}
	before := w.fetches()
	got, err := w.pc.Get(context.Background(), "P")
	verif_Reach("lookup returned")
	verif_Assert(err == nil && got != nil, "a cached provider is returned while a writer is active")
	res, rerr := w.pc.GetResults(context.Background(), "P", []byte("c"), []byte("m"))
	verif_Assert(rerr == nil && len(res) >= 1, "result expansion completes while a writer is active")
	verif_Assert(len(w.pc.List()) == 1 && w.pc.Len() >= 1, "listing completes while a writer is active")
	verif_Assert(w.fetches() == before, "reads of cached providers do not query the sources")
	<-w.pc.writeLock // the writer finishes; a started automatic refresh may now run
	verif_Quiesce()
}

// C07 (b): a snapshot that was published to readers is never mutated by later
// refreshes or miss-fetches (they build new maps), so a reader that loaded it
// keeps a consistent view.
func VerifC07_SnapshotsImmutable() {
	c06pids = []peer.ID{"P"}
	w := c06new()
	w.refresh(false, false)
	old := w.pc.read.Load()
	verif_Assume(old != nil)
	before := c07capture(old)
	switch verif_Choose("writer", 0, 2) {
	case 0:
		w.refresh(true, true)
	case 1:
		// the provider disappears and expires (entry removal path)
		w.refreshAbsent()
		w.tick()
		w.tick()
		w.refreshAbsent()
	case 2:
		for _, s := range w.srcs {
			s.fail = false
		}
		_, _ = w.pc.Get(context.Background(), "Q") // possibly a miss-fetch
		_, _ = w.pc.Get(context.Background(), "P")
	}
	verif_Reach("writer done")
	after := c07capture(old)
	verif_Assert(c07same(before, after, old), "a published snapshot (both maps and the records in them) is not modified by later writers")
}

// C07 (d): the automatic refresh is started at most once per arming.
func VerifC07_SingleAutoRefresh() {
	c06pids = []peer.ID{"P"}
	w := c06new()
	w.seed()
	alls := 0
	for _, s := range w.srcs {
		s.fail = false
	}
	counting := &c07countingSource{inner: w.srcs[0], n: &alls}
	w.pc.sources = []ProviderSource{counting, w.srcs[1]}
	w.pc.refreshIn = 1
	w.pc.refreshTimer = c07timer()
	w.pc.needsRefresh.Store(true) // the refresh interval elapsed
	readers := 2
	done := make(chan struct{}, readers)
	for i := 0; i < readers; i++ {
		go func() {
			got, err := w.pc.Get(context.Background(), "P")
			verif_Assert(err == nil && got != nil, "concurrent readers of a cached provider succeed")
			done <- struct{}{}
		}()
	}
	for i := 0; i < readers; i++ {
		<-done
	}
	verif_Quiesce()
	verif_Reach("quiescent")
	verif_Assert(alls == 1, "exactly one automatic refresh is started per elapsed interval")
}

// C07 (e): a reader racing with a refresh sees each provider either as before
// or as after the refresh: never missing, never older than it saw before.
func VerifC07_ReaderVsRefresh() {
	c06pids = []peer.ID{"P"}
	w := c06new()
	w.seed()
	first := w.shown["P"]
	// new contents for the concurrent refresh
	for _, s := range w.srcs {
		s.fail = false
		ti := verif_Int(s.name + "NewTime")
		verif_Assume(ti >= 0 && ti <= 3)
		s.content["P"] = c06entry{present: verif_Bool(s.name + "StillReports"), ti: ti}
	}
	done := make(chan struct{}, 1)
	go func() {
		w.cx.cancelled = false
		_ = w.pc.Refresh(w.cx)
		done <- struct{}{}
	}()
	last := first
	for i := 0; i < 2; i++ {
		before := w.fetches()
		got, err := w.pc.Get(context.Background(), "P")
		verif_Assert(err == nil && got != nil, "a provider present before and after an update is never reported missing")
		verif_Assert(w.fetches() == before, "the concurrent reader never falls through to the sources")
		if got != nil {
			ti := c06timeIdx(got.LastAdvertisementTime)
			verif_Assert(ti >= last, "successive reads never return an older record")
			last = ti
		}
		verif_Yield()
	}
	<-done
	verif_Reach("both done")
}

// seed: a completed refresh with concrete content (P reported by s1 at time 1).
func (w *c06world) seed() {
	w.srcs[0].content["P"] = c06entry{present: true, ti: 1}
	w.srcs[1].content["P"] = c06entry{}
	w.cx.cancelled = false
	verif_Assume(w.pc.Refresh(w.cx) == nil)
	got, err := w.pc.Get(context.Background(), "P")
	verif_Assume(err == nil && got != nil)
	w.visible["P"] = true
	w.shown["P"] = c06timeIdx(got.LastAdvertisementTime)
}

// C07: a lookup miss that queues behind a refresh must not publish a view
// older than what that refresh published.
func VerifC07_MissFetchVsRefresh() {
	c06pids = []peer.ID{"P"}
	w := c06new()
	w.seed() // P at time 1
	// the refresh brings P to time 2; concurrently an unknown provider Q is looked up
	w.srcs[0].content["P"] = c06entry{present: true, ti: 2}
	done := make(chan struct{}, 2)
	// (Q is unknown to the sources — a negative entry — or known to the second
	// source only by lookup: the refresh in this history does not list it)
	qKnown := verif_Bool("lookedUpProviderExists")
	var qGot *model.ProviderInfo
	if qKnown {
		w.srcs[1].lookupOnly = map[peer.ID]c06entry{"Q": {present: true, ti: 1}}
	}
	go func() {
		w.cx.cancelled = false
		_ = w.pc.Refresh(w.cx)
		done <- struct{}{}
	}()
	go func() {
		qGot, _ = w.pc.Get(context.Background(), "Q") // miss: fetches, caches the answer
		done <- struct{}{}
	}()
	<-done
	<-done
	verif_Reach("both done")
	if qKnown {
		verif_Assert(qGot != nil, "the lookup miss found the provider")
		// what the miss-fetch cached and returned stays cached when the refresh that
		// overlapped with it completes: no new source query, still listed
		before := w.fetches()
		again, aerr := w.pc.Get(context.Background(), "Q")
		verif_Assert(aerr == nil && again != nil && w.fetches() == before, "a provider cached by a lookup miss is not dropped by a refresh that overlapped with the miss-fetch")
		inList := false
		for _, pi := range w.pc.List() {
			if pi.AddrInfo.ID == "Q" {
				inList = true
			}
		}
		verif_Assert(inList, "and it is listed")
	}
	got, err := w.pc.Get(context.Background(), "P")
	verif_Assert(err == nil && got != nil, "the cached provider is still there")
	if got != nil {
		verif_Assert(c06timeIdx(got.LastAdvertisementTime) == 2, "after a refresh and a concurrent miss-fetch both completed, readers see the refreshed record")
	}
	n := 0
	for _, pi := range w.pc.List() {
		if pi.AddrInfo.ID == "P" {
			n++
		}
	}
	verif_Assert(n == 1, "the refreshed provider is listed once")
}

// C07 ("every read observes the cache as of some completed update"): a refresh
// that was cancelled part-way has staged a provider the readers do not see
// yet. A lookup of that provider (a miss) returns it — and from then on the
// cache holds it like any other cached provider: it is listed, the next lookup
// is answered from the cache without querying the sources, and the record does
// not go backwards.
func VerifC07_LookupOfStagedProvider() {
	old := c06pids
	c06pids = []peer.ID{"P"}
	defer func() { c06pids = old }()
	w := c06new()
	known := verif_Bool("providerKnownBefore")
	if known {
		w.seed() // P at time 1
	}
	// the cancelled refresh: s1 reports P (newer if it was known), s2 finds the context cancelled
	w.srcs[0].content["P"] = c06entry{present: true, ti: 2}
	w.srcs[1].fail, w.srcs[1].cancel = true, true
	w.cx.cancelled = false
	verif_Assert(w.pc.Refresh(w.cx) != nil, "the cancelled refresh reports the cancellation")
	w.srcs[1].fail, w.srcs[1].cancel = false, false
	got, err := w.pc.Get(context.Background(), "P")
	verif_Reach("looked up")
	verif_Assert(err == nil && got != nil, "the lookup returns the provider")
	if got == nil {
		return
	}
	first := c06timeIdx(got.LastAdvertisementTime)
	before := w.fetches()
	again, aerr := w.pc.Get(context.Background(), "P")
	verif_Assert(aerr == nil && again != nil && w.fetches() == before, "a provider the cache returned is cached: the next lookup does not query the sources")
	if again != nil {
		verif_Assert(c06timeIdx(again.LastAdvertisementTime) >= first, "successive reads never go backwards")
	}
	listed := false
	for _, pi := range w.pc.List() {
		if pi.AddrInfo.ID == "P" {
			listed = true
			verif_Assert(c06timeIdx(pi.LastAdvertisementTime) >= first, "the listing is not older than what a lookup returned")
		}
	}
	verif_Assert(listed, "a provider the cache returned is listed")
}
