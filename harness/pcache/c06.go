package pcache

import (
	"context"
	"errors"
	"fmt"
	"net/http"
	"time"

	"github.com/ipni/go-libipni/apierror"
	"github.com/ipni/go-libipni/find/model"
	"github.com/libp2p/go-libp2p/core/peer"
)

// advertisement time tokens: 0 = no time; 1 < 2 < 3. In the symbolic run a
// non-empty token is one byte that the time.Parse model maps monotonically to
// an instant after 1970; natively it is a real RFC3339 string.
func c06time(i int) string {
	if i == 0 {
		return ""
	}
	if verif_Symbolic() {
		return string([]byte{byte(i)})
	}
	return fmt.Sprintf("2024-01-01T00:00:%02dZ", i)
}

func c06timeIdx(s string) int {
	if s == "" {
		return 0
	}
	if verif_Symbolic() {
		return int(s[0])
	}
	var i int
	fmt.Sscanf(s, "2024-01-01T00:00:%02dZ", &i)
	return i
}

type c06ctx struct {
	context.Context
	cancelled bool
	done      chan struct{}
}

func (c *c06ctx) Err() error {
	if c.cancelled {
		return context.Canceled
	}
	return nil
}
func (c *c06ctx) Done() <-chan struct{} { return c.done }

type c06entry struct {
	present bool
	ti      int
}

// c06src is a scripted provider source.
type c06src struct {
	name    string
	ctx     *c06ctx
	fail    bool // FetchAll / Fetch return an error
	cancel  bool // ... and the context is cancelled at that moment
	content map[peer.ID]c06entry
	fetches int
	// cancelFor: a FetchAll made with this context finds it cancelled (other
	// callers are served normally)
	cancelFor context.Context
	// lookupOnly: providers this source answers for in Fetch but does not list in FetchAll
	lookupOnly map[peer.ID]c06entry
}

func (s *c06src) String() string { return s.name }

func (s *c06src) mk(pid peer.ID, ti int) *model.ProviderInfo {
	return &model.ProviderInfo{AddrInfo: peer.AddrInfo{ID: pid}, LastAdvertisementTime: c06time(ti), LastError: s.name}
}

func (s *c06src) FetchAll(ctx context.Context) ([]*model.ProviderInfo, error) {
	if s.cancelFor != nil && ctx == s.cancelFor {
		s.ctx.cancelled = true
		return nil, context.Canceled
	}
	if s.fail {
		if s.cancel {
			s.ctx.cancelled = true
			return nil, context.Canceled
		}
		return nil, errors.New("source unavailable")
	}
	var out []*model.ProviderInfo
	for _, pid := range c06pids {
		if e := s.content[pid]; e.present {
			out = append(out, s.mk(pid, e.ti))
		}
	}
	return out, nil
}

func (s *c06src) Fetch(ctx context.Context, pid peer.ID) (*model.ProviderInfo, error) {
	s.fetches++
	if s.fail {
		return nil, errors.New("source unavailable")
	}
	e := s.content[pid]
	if lo, ok := s.lookupOnly[pid]; ok {
		e = lo
	}
	if !e.present {
		if s.name == "s1" {
			return nil, apierror.New(errors.New("not found"), http.StatusNotFound)
		}
		return nil, nil
	}
	return s.mk(pid, e.ti), nil
}

var c06pids = []peer.ID{"P"}

const c06ttlUnits = 2 // time-to-live in clock units

// time-to-live: 2 clock units. Native replay: one clock unit = 150 ms of real
// time and the TTL gets half a unit of slack so that "exactly at the deadline"
// (not expired in the model) is not decided by scheduling jitter.
func c06ttl() time.Duration {
	if verif_Symbolic() {
		return c06ttlUnits * time.Second
	}
	return c06ttlUnits*150*time.Millisecond + 75*time.Millisecond
}

type c06world struct {
	pc          *ProviderCache
	cx          *c06ctx
	srcs        []*c06src
	clock       int
	shown       map[peer.ID]int  // newest time token returned by a lookup so far
	visible     map[peer.ID]bool // visible after the last completed refresh / successful miss fetch
	absentSince map[peer.ID]int
	hasAbsent   map[peer.ID]bool
	knownAbsent map[peer.ID]bool
}

func c06new() *c06world {
	w := &c06world{shown: map[peer.ID]int{}, visible: map[peer.ID]bool{}, absentSince: map[peer.ID]int{}, hasAbsent: map[peer.ID]bool{}, knownAbsent: map[peer.ID]bool{}}
	w.cx = &c06ctx{Context: context.Background(), done: make(chan struct{})}
	for _, n := range []string{"s1", "s2"} {
		w.srcs = append(w.srcs, &c06src{name: n, ctx: w.cx, content: map[peer.ID]c06entry{}})
	}
	// through the public constructor (no preload, no automatic refresh: the harness drives both)
	pc, err := New(WithSource(w.srcs[0], w.srcs[1]), WithTTL(c06ttl()), WithRefreshInterval(0), WithPreload(false))
	verif_Assume(err == nil && pc != nil)
	w.pc = pc
	verif_SetClock(0)
	return w
}

func (w *c06world) fetches() int { return w.srcs[0].fetches + w.srcs[1].fetches }

// refresh with arbitrary new source behaviour; mayCancel allows a cancellation part-way
func (w *c06world) refresh(mayFail, mayCancel bool) {
	for _, s := range w.srcs {
		s.fail = mayFail && verif_Bool(s.name+"Fails")
		s.cancel = s.fail && mayCancel && verif_Bool(s.name+"CancelledHere")
		for _, pid := range c06pids {
			ti := verif_Int(s.name + "Time" + string(pid))
			verif_Assume(ti >= 0 && ti <= 3)
			s.content[pid] = c06entry{present: verif_Bool(s.name + "Reports" + string(pid)), ti: ti}
		}
	}
	w.cx.cancelled = false
	err := w.pc.Refresh(w.cx)
	verif_Reach("refreshed")
	if err != nil {
		verif_Assert(w.cx.cancelled, "Refresh fails only when its context is cancelled")
		return // a failed refresh promises nothing about visibility
	}
	verif_Reach("refresh completed")
	list := w.pc.List()
	for _, pid := range c06pids {
		newest, reported := -1, false
		for _, s := range w.srcs {
			if s.fail {
				continue
			}
			if e := s.content[pid]; e.present {
				reported = true
				if e.ti > newest {
					newest = e.ti
				}
			}
		}
		inList := false
		for _, pi := range list {
			if pi.AddrInfo.ID == pid {
				inList = true
			}
		}
		before := w.fetches()
		got, gerr := w.pc.Get(context.Background(), pid)
		hit := w.fetches() == before
		verif_Assert(gerr == nil, "lookup succeeds")
		if reported {
			w.hasAbsent[pid] = false
			w.knownAbsent[pid] = false
			verif_Assert(hit && got != nil, "a provider reported by a responding source in this refresh is returned by lookups")
			verif_Assert(inList, "a provider reported in this refresh is listed")
			if got != nil {
				ti := c06timeIdx(got.LastAdvertisementTime)
				verif_Assert(ti >= newest, "the record returned bears the most recent advertisement time reported in this refresh")
				verif_Assert(ti >= w.shown[pid], "the record returned is never older than one returned before")
				w.shown[pid] = ti
			}
			w.visible[pid] = true
		} else if w.visible[pid] {
			expired := w.hasAbsent[pid] && w.clock > w.absentSince[pid]+c06ttlUnits
			if !w.hasAbsent[pid] {
				w.hasAbsent[pid], w.absentSince[pid] = true, w.clock
			}
			if expired {
				verif_Assert(!inList, "a provider no source reports is gone after the first refresh past its time-to-live")
				verif_Assert(got == nil, "and lookups agree with listings: the expired provider is not returned any more")
				w.visible[pid] = false
				delete(w.shown, pid)
				w.hasAbsent[pid] = false
			} else {
				verif_Assert(hit && got != nil && inList, "a provider no source reports stays visible until its time-to-live has elapsed")
			}
		}
	}
}

func (w *c06world) lookup() {
	pid := c06pids[0]
	for _, s := range w.srcs {
		s.fail = false
	}
	if !w.visible[pid] && !w.knownAbsent[pid] {
		// the sources' current content is arbitrary when the provider was never cached
		for _, s := range w.srcs {
			ti := verif_Int(s.name + "MissTime")
			verif_Assume(ti >= 0 && ti <= 3)
			s.content[pid] = c06entry{present: verif_Bool(s.name + "HasOnMiss"), ti: ti}
		}
	}
	before := w.fetches()
	got, gerr := w.pc.Get(context.Background(), pid)
	fetched := w.fetches() - before
	verif_Reach("looked up")
	verif_Assert(gerr == nil, "lookup succeeds")
	if w.visible[pid] || w.knownAbsent[pid] {
		verif_Assert(fetched == 0, "a cached provider, or one remembered as absent, does not query the sources again")
	}
	if got != nil {
		ti := c06timeIdx(got.LastAdvertisementTime)
		verif_Assert(ti >= w.shown[pid], "a lookup never returns an older record than an earlier lookup")
		w.shown[pid] = ti
		if fetched > 0 {
			w.visible[pid] = true
			for _, s := range w.srcs {
				if e := s.content[pid]; e.present {
					verif_Assert(ti >= e.ti, "a lookup miss caches the record with the most recent advertisement time among the sources")
				}
			}
		}
	} else if !w.visible[pid] {
		if fetched > 0 {
			verif_Assert(!w.srcs[0].content[pid].present && !w.srcs[1].content[pid].present, "a miss is answered negatively only if no source has the provider")
		}
		w.knownAbsent[pid] = true
	}
}

func (w *c06world) tick() {
	w.clock += verif_Choose("clockAdvance", 1, 3)
	verif_SetClock(int64(w.clock))
}

// C06: free histories of refreshes (content changes, failures, cancellation
// part-way), lookups and clock advances.
func VerifC06_History() {
	w := c06new()
	nops := verif_Choose("operations", 1, 2+verif_Tier())
	for op := 0; op < nops; op++ {
		switch verif_Choose("op", 0, 2) {
		case 0:
			w.refresh(true, true)
		case 1:
			w.lookup()
		case 2:
			w.tick()
		}
	}
}

// C06: a refresh that was cancelled part-way must not make later successful
// refreshes keep an older record (directed three-refresh history, contents symbolic).
func VerifC06_CancelledThenRefresh() {
	w := c06new()
	w.refresh(false, false)
	w.refresh(true, true)
	if verif_Bool("clockAdvances") {
		w.tick()
	}
	w.refresh(false, false)
	verif_Reach("third refresh")
}

// refreshAbsent: a completed refresh in which no source reports anything.
func (w *c06world) refreshAbsent() {
	for _, s := range w.srcs {
		s.fail, s.cancel = false, false
		for _, pid := range c06pids {
			s.content[pid] = c06entry{}
		}
	}
	w.cx.cancelled = false
	err := w.pc.Refresh(w.cx)
	verif_Assert(err == nil, "refresh succeeds")
	pid := c06pids[0]
	if !w.visible[pid] {
		return
	}
	inList := false
	for _, pi := range w.pc.List() {
		if pi.AddrInfo.ID == pid {
			inList = true
		}
	}
	expired := w.hasAbsent[pid] && w.clock > w.absentSince[pid]+c06ttlUnits
	if !w.hasAbsent[pid] {
		w.hasAbsent[pid], w.absentSince[pid] = true, w.clock
	}
	if expired {
		verif_Reach("expired")
		verif_Assert(!inList, "a provider no source reports is gone after the first refresh past its time-to-live")
		gone, gerr := w.pc.Get(context.Background(), pid)
		verif_Assert(gerr == nil && gone == nil, "and lookups agree with listings: the expired provider is not returned any more")
		w.knownAbsent[pid] = true // (that lookup asked the sources and remembers the answer)
		w.visible[pid] = false
		delete(w.shown, pid)
		w.hasAbsent[pid] = false
	} else {
		before := w.fetches()
		got, gerr := w.pc.Get(context.Background(), pid)
		verif_Assert(gerr == nil && got != nil && w.fetches() == before && inList, "a provider no source reports stays visible until its time-to-live has elapsed")
	}
}

// C06: time-to-live of providers no source reports any longer.
func VerifC06_Expiry() {
	w := c06new()
	w.refresh(false, false)
	for i := 0; i < 3; i++ {
		if verif_Bool("tick") {
			w.tick()
		}
		w.refreshAbsent()
	}
	verif_Reach("history done")
}

// C06: a provider that disappears, reappears (with the same or a newer record)
// and disappears again gets a full time-to-live from its last disappearance.
func VerifC06_Reappear() {
	w := c06new()
	w.seed()
	w.refreshAbsent() // disappears: removal timer armed
	if verif_Bool("tickBeforeReappearing") {
		w.tick()
	}
	w.refresh(false, false) // arbitrary content: may reappear with the same, a newer or an older time
	w.tick()
	w.refreshAbsent()
	if verif_Bool("secondRound") {
		w.tick()
		w.refreshAbsent()
	}
	verif_Reach("history done")
}

// C06: a provider unknown to every source is remembered as absent (no repeated
// source queries) and becomes visible at the first successful refresh after a
// source starts reporting it.
func VerifC06_NegativeEntry() {
	w := c06new()
	pid := c06pids[0]
	if verif_Bool("refreshFirst") {
		w.refreshAbsent()
	}
	got, err := w.pc.Get(context.Background(), pid)
	verif_Assert(err == nil && got == nil, "a provider unknown to every source is reported as absent")
	verif_Assert(w.fetches() == 2, "a miss asks each source once")
	got, err = w.pc.Get(context.Background(), pid)
	verif_Assert(err == nil && got == nil && w.fetches() == 2, "repeated lookups of an absent provider do not query the sources again")
	// a source starts reporting it
	ti := verif_Choose("time", 0, 3)
	w.srcs[verif_Choose("source", 0, 1)].content[pid] = c06entry{present: true, ti: ti}
	got, err = w.pc.Get(context.Background(), pid)
	verif_Assert(err == nil && got == nil && w.fetches() == 2, "the negative entry answers until the next refresh")
	w.cx.cancelled = false
	verif_Assert(w.pc.Refresh(w.cx) == nil, "refresh succeeds")
	got, err = w.pc.Get(context.Background(), pid)
	verif_Reach("reported")
	verif_Assert(err == nil && got != nil && w.fetches() == 2, "the provider becomes visible at the first successful refresh after a source starts reporting it")
	if got != nil {
		verif_Assert(c06timeIdx(got.LastAdvertisementTime) == ti, "with the reported record")
	}
}

// needMerge(u, m) <=> u(u+1) > 2m, without overflow on realistic sizes.
func VerifC06_NeedMerge() {
	u := verif_Int("u")
	m := verif_Int("m")
	verif_Assume(u >= 0 && u <= 1<<20 && m >= 0 && m <= 1<<20)
	got := needMerge(u, m)
	verif_Reach("computed")
	verif_Assert(got == (u*(u+1) > 2*m), "merge threshold is u(u+1) > 2m")
	verif_Assert(u*(u+1) >= 0 && 2*m >= 0, "no overflow for maps up to 2^20 entries")
	if m == 0 && u >= 1 {
		verif_Assert(got, "any update merges into an empty main map")
	}
}

// C06/C07: when the update map is merged into a rebuilt main map, the newest
// record of every provider survives (three providers, updates spread over two
// refreshes so that the second one crosses the merge threshold).
func VerifC06_MergeThreshold() {
	old := c06pids
	c06pids = []peer.ID{"A", "B", "C"}
	defer func() { c06pids = old }()
	w := c06new()
	set := func(ta, tb, tc int) {
		for i, ti := range []int{ta, tb, tc} {
			w.srcs[0].content[c06pids[i]] = c06entry{present: true, ti: ti}
			w.srcs[1].content[c06pids[i]] = c06entry{}
		}
		w.cx.cancelled = false
		verif_Assume(w.pc.Refresh(w.cx) == nil)
	}
	get := func(pid peer.ID) int {
		got, err := w.pc.Get(context.Background(), pid)
		verif_Assert(err == nil && got != nil, "a cached provider is returned")
		if got == nil {
			return -1
		}
		return c06timeIdx(got.LastAdvertisementTime)
	}
	set(1, 1, 1)
	first := verif_Choose("updatedFirst", 0, 2)
	t := []int{1, 1, 1}
	t[first] = 2
	set(t[0], t[1], t[2])
	verif_Assert(get(c06pids[first]) == 2, "an updated provider is visible after the refresh")
	t2 := []int{2, 2, 2}
	if verif_Bool("firstAdvancesAgain") {
		t2[first] = 3
	}
	set(t2[0], t2[1], t2[2]) // the other two advance: the update map is merged
	verif_Reach("merged")
	for i, pid := range c06pids {
		verif_Assert(get(pid) == t2[i], "after the update map is merged every provider still shows its newest record")
	}
	verif_Assert(len(w.pc.List()) == 3 && w.pc.Len() >= 3, "all providers are listed")
}

// C06: a lookup miss whose insertion crosses the merge threshold rebuilds the
// main map: every provider already cached still shows its newest record
// afterwards (the update map wins over the old main map), including records
// and negative entries that only became visible at the last refresh.
func VerifC06_MissMergeKeepsNewest() {
	old := c06pids
	c06pids = []peer.ID{"A", "B"}
	defer func() { c06pids = old }()
	w := c06new()
	set := func(ta, tb int) {
		for i, ti := range []int{ta, tb} {
			w.srcs[0].content[c06pids[i]] = c06entry{present: ti > 0, ti: ti}
			w.srcs[1].content[c06pids[i]] = c06entry{}
		}
		w.cx.cancelled = false
		verif_Assume(w.pc.Refresh(w.cx) == nil)
	}
	get := func(pid peer.ID) int {
		got, err := w.pc.Get(context.Background(), pid)
		verif_Assert(err == nil, "lookup succeeds")
		if got == nil {
			return -1
		}
		return c06timeIdx(got.LastAdvertisementTime)
	}
	set(1, 1) // both merged into the (empty) main map
	adv := verif_Choose("advanced", 0, 1)
	t := []int{1, 1}
	t[adv] = 2 + verif_Choose("by", 0, 1)
	set(t[0], t[1]) // one provider advances: kept in the update map (1*2 <= 2*2)
	verif_Assert(get(c06pids[adv]) == t[adv], "an updated provider is visible after the refresh")
	// a lookup miss for a third provider, found at a source or not
	q := peer.ID("Q")
	if verif_Bool("missFound") {
		w.srcs[1].content[q] = c06entry{present: true, ti: 1}
	}
	before := w.fetches()
	_, err := w.pc.Get(context.Background(), q)
	verif_Assert(err == nil && w.fetches() > before, "the unknown provider is looked up at the sources")
	verif_Reach("miss merged")
	for i, pid := range c06pids {
		verif_Assert(get(pid) == t[i], "after a lookup miss rebuilt the main map every cached provider still shows its newest record")
	}
	verif_Assert(len(w.pc.List()) >= 2, "the cached providers are still listed")
}

// C06: two overlapping refreshes, the first of which is cancelled part-way
// (after a source already advanced a provider): the second one, which waited
// for the writer slot, completes without error and therefore must leave the
// newest records visible — a cancelled refresh does not count as a completed one.
func VerifC06_OverlappingRefreshCancelled() {
	c06pids = []peer.ID{"P"}
	w := c06new()
	w.seed() // P at time 1
	w.srcs[0].content["P"] = c06entry{present: true, ti: 2}
	w.srcs[1].content["P"] = c06entry{present: verif_Bool("s2ReportsP"), ti: 1}
	w.srcs[1].cancelFor = w.cx // the first refresh is cancelled while asking the second source
	errs := make(chan error, 2)
	var err2 error
	go func() {
		w.cx.cancelled = false
		errs <- w.pc.Refresh(w.cx)
	}()
	go func() {
		err2 = w.pc.Refresh(context.Background())
		errs <- err2
	}()
	<-errs
	<-errs
	verif_Reach("both done")
	verif_Assert(err2 == nil, "a refresh whose context is live completes without error")
	got, err := w.pc.Get(context.Background(), "P")
	verif_Assert(err == nil && got != nil, "the cached provider is still there")
	if got != nil && err2 == nil {
		verif_Assert(c06timeIdx(got.LastAdvertisementTime) == 2, "a refresh that completes without error leaves the newest record visible, even if it overlapped a cancelled one")
	}
}

// C06: a refresh cancelled part-way (after a source already advanced a
// provider), then a lookup miss for another provider, then a refresh that
// completes: the advanced record is visible — whatever the lookup miss did in
// between to the writer-side bookkeeping.
func VerifC06_CancelledThenMissThenRefresh() {
	old := c06pids
	c06pids = []peer.ID{"P"}
	defer func() { c06pids = old }()
	w := c06new()
	w.seed() // P at time 1
	// refresh 2: s1 reports P at time 2, s2 finds the context cancelled
	w.srcs[0].content["P"] = c06entry{present: true, ti: 2}
	w.srcs[1].fail, w.srcs[1].cancel = true, true
	w.cx.cancelled = false
	err := w.pc.Refresh(w.cx)
	verif_Assert(err != nil, "the cancelled refresh reports the cancellation")
	w.srcs[1].fail, w.srcs[1].cancel = false, false
	w.cx.cancelled = false
	// a lookup miss for an unknown provider (found at a source or not)
	if verif_Bool("missFound") {
		w.srcs[1].content["Q"] = c06entry{present: true, ti: 1}
	}
	_, gerr := w.pc.Get(context.Background(), "Q")
	verif_Assert(gerr == nil, "lookup succeeds")
	if verif_Bool("clockAdvances") {
		w.tick()
	}
	// refresh 3 completes; the sources still report P at time 2
	verif_Assert(w.pc.Refresh(w.cx) == nil, "the refresh completes")
	verif_Reach("third refresh")
	got, err := w.pc.Get(context.Background(), "P")
	verif_Assert(err == nil && got != nil, "the provider is returned")
	if got != nil {
		verif_Assert(c06timeIdx(got.LastAdvertisementTime) == 2, "after a refresh that completed without error lookups show the most recent record, whatever failed or was looked up before")
	}
	for _, pi := range w.pc.List() {
		if pi.AddrInfo.ID == "P" {
			verif_Assert(c06timeIdx(pi.LastAdvertisementTime) == 2, "listings show the most recent record")
		}
	}
}

// C06 (expiry, also for a provider that was never merged into the main map,
// and negative entries across a merge): B is added while the main map holds A
// and stays in the update map; it then disappears and its time-to-live passes:
// the next refresh removes it from listings and lookups. A provider remembered
// as absent stays remembered (no new source query) when a refresh rebuilds the
// main map.
func VerifC06_UnmergedExpiryAndNegativeAcrossMerge() {
	old := c06pids
	c06pids = []peer.ID{"A", "B", "C", "D"}
	defer func() { c06pids = old }()
	w := c06new()
	set := func(present ...bool) {
		for i, p := range present {
			w.srcs[0].content[c06pids[i]] = c06entry{present: p, ti: 1}
			w.srcs[1].content[c06pids[i]] = c06entry{}
		}
		w.cx.cancelled = false
		verif_Assume(w.pc.Refresh(w.cx) == nil)
	}
	listed := func(pid peer.ID) bool {
		for _, pi := range w.pc.List() {
			if pi.AddrInfo.ID == pid {
				return true
			}
		}
		return false
	}
	set(true, false, false, false) // A: merged into the (empty) main map
	if verif_Bool("negativeEntryScenario") {
		// Q is looked up and remembered as absent (kept in the update map)
		_, err := w.pc.Get(context.Background(), "Q")
		verif_Assert(err == nil, "lookup succeeds")
		before := w.fetches()
		set(true, true, true, true) // three providers appear: the update map is merged into a new main map
		verif_Reach("merged")
		got, err := w.pc.Get(context.Background(), "Q")
		verif_Assert(err == nil && got == nil, "the unknown provider is still absent")
		verif_Assert(w.fetches() == before, "a provider remembered as absent is not looked up at the sources again after the main map was rebuilt")
		return
	}
	set(true, true, false, false) // B: kept in the update map
	verif_Assume(listed("B"))
	set(true, false, false, false) // B disappears: its time-to-live starts
	verif_Assert(listed("B"), "a provider no source reports stays visible until its time-to-live has elapsed")
	w.clock += c06ttlUnits + 1
	verif_SetClock(int64(w.clock))
	set(true, false, false, false) // first refresh past the time-to-live
	verif_Reach("expired")
	verif_Assert(!listed("B"), "a provider that was only in the update map is gone after the first refresh past its time-to-live")
	verif_Assert(listed("A"), "the others stay")
	for _, s := range w.srcs {
		s.fail = false
	}
	got, err := w.pc.Get(context.Background(), "B")
	verif_Assert(err == nil && got == nil, "and is not returned by lookups either")
}

// C06 (expiry after a cancelled refresh): a refresh cancelled part-way — after
// a source already reported the provider — does not postpone the provider's
// removal: once no source reports it, it is visible until its time-to-live has
// elapsed and gone after the next refresh, exactly as if the cancelled refresh
// had not happened.
func VerifC06_CancelledRefreshThenExpiry() {
	old := c06pids
	c06pids = []peer.ID{"P"}
	defer func() { c06pids = old }()
	w := c06new()
	w.seed() // P at time 1
	// s1 still reports P (same or newer record); s2 finds the context cancelled
	w.srcs[0].content["P"] = c06entry{present: true, ti: verif_Choose("timeInCancelledRefresh", 1, 2)}
	w.srcs[1].fail, w.srcs[1].cancel = true, true
	w.cx.cancelled = false
	err := w.pc.Refresh(w.cx)
	verif_Assert(err != nil, "the cancelled refresh reports the cancellation")
	w.srcs[1].fail, w.srcs[1].cancel = false, false
	for i := 0; i < 3; i++ {
		if i > 0 || verif_Bool("tick") {
			w.tick()
		}
		w.refreshAbsent()
	}
	verif_Reach("history done")
}

// C06 / C07: a provider the sources keep reporting with an unchanged record
// stays visible however much time passes: the time-to-live only runs for
// providers no source reports any longer ("a provider present both before and
// after an update is never reported missing").
func VerifC06_UnchangedProviderStaysVisible() {
	old := c06pids
	c06pids = []peer.ID{"P"}
	defer func() { c06pids = old }()
	w := c06new()
	w.seed() // P at time 1, reported by s1
	rounds := 2 + verif_Tier()
	for i := 0; i < rounds; i++ {
		w.tick() // 1..3 clock units; the time-to-live is 2
		w.srcs[0].content["P"] = c06entry{present: true, ti: 1}
		if verif_Bool("otherSourceReportsItToo") {
			w.srcs[1].content["P"] = c06entry{present: true, ti: verif_Choose("otherSourceTime", 0, 1)}
		} else {
			w.srcs[1].content["P"] = c06entry{}
		}
		w.cx.cancelled = false
		verif_Assert(w.pc.Refresh(w.cx) == nil, "the refresh completes")
		before := w.fetches()
		got, err := w.pc.Get(context.Background(), "P")
		verif_Assert(err == nil && got != nil && w.fetches() == before && c06timeIdx(got.LastAdvertisementTime) == 1, "a provider reported with an unchanged record in every refresh is never reported missing")
		verif_Assert(len(w.pc.List()) == 1, "and stays listed")
	}
	verif_Reach("history done")
}

// C06 (a provider first seen by a refresh that was cancelled part-way): the
// cancelled refresh staged P without publishing it; the next refresh completes
// without seeing P (its source is down, or P is briefly not reported); the
// refresh after that sees P again — with the same or a newer record — and must
// make it visible: "each provider reported by at least one responding source is
// returned by lookups and listings", whatever earlier refreshes did.
func VerifC06_StagedByCancelledRefreshThenSeenAgain() {
	old := c06pids
	c06pids = []peer.ID{"P"}
	defer func() { c06pids = old }()
	w := c06new()
	if verif_Bool("cacheHoldsAnotherProviderFirst") {
		w.srcs[1].content["Q"] = c06entry{present: true, ti: 1}
		c06pids = []peer.ID{"P", "Q"}
		verif_Assume(w.pc.Refresh(w.cx) == nil)
	}
	if verif_Bool("providerKnownBefore") {
		// (then the cancelled refresh stages a NEWER record of a provider readers already see)
		w.srcs[0].content["P"] = c06entry{present: true, ti: 0}
		verif_Assume(w.pc.Refresh(w.cx) == nil)
	}
	// refresh 1: s1 reports the new provider P, then s2 finds the context cancelled
	w.srcs[0].content["P"] = c06entry{present: true, ti: 1}
	w.srcs[1].fail, w.srcs[1].cancel = true, true
	w.cx.cancelled = false
	verif_Assert(w.pc.Refresh(w.cx) != nil, "the cancelled refresh reports the cancellation")
	w.srcs[1].fail, w.srcs[1].cancel = false, false
	// refresh 2 completes without seeing P
	if verif_Bool("sourceDownInSecondRefresh") {
		w.srcs[0].fail = true
	} else {
		w.srcs[0].content["P"] = c06entry{}
	}
	w.cx.cancelled = false
	verif_Assert(w.pc.Refresh(w.cx) == nil, "the second refresh completes")
	if verif_Bool("clockAdvances") {
		w.tick()
	}
	// refresh 3 sees P again
	w.srcs[0].fail = false
	ti := verif_Choose("timeWhenSeenAgain", 1, 2)
	w.srcs[0].content["P"] = c06entry{present: true, ti: ti}
	w.cx.cancelled = false
	verif_Assert(w.pc.Refresh(w.cx) == nil, "the third refresh completes")
	verif_Reach("third refresh")
	listed := false
	for _, pi := range w.pc.List() {
		if pi.AddrInfo.ID == "P" {
			listed = true
			verif_Assert(c06timeIdx(pi.LastAdvertisementTime) == ti, "listed with the record reported")
		}
	}
	verif_Assert(listed, "a provider reported by a responding source in a completed refresh is listed, whatever earlier refreshes did")
	before := w.fetches()
	got, err := w.pc.Get(context.Background(), "P")
	verif_Assert(err == nil && got != nil && c06timeIdx(got.LastAdvertisementTime) == ti, "and returned by lookups")
	verif_Assert(w.fetches() == before, "from the cache")
}

// C06 (time-to-live of a provider first cached by a lookup miss): P is cached
// by a lookup miss and no refresh reports it afterwards; however long it has
// been cached, once the sources stop reporting it P stays visible until its
// time-to-live has elapsed — counted from the refresh that first did not see
// it, not from the lookup — and is gone after the next refresh past that.
func VerifC06_MissCachedThenDisappears() {
	old := c06pids
	c06pids = []peer.ID{"P"}
	defer func() { c06pids = old }()
	w := c06new()
	w.srcs[1].lookupOnly = map[peer.ID]c06entry{"P": {present: true, ti: 1}}
	got, err := w.pc.Get(context.Background(), "P")
	verif_Assert(err == nil && got != nil, "the lookup miss finds and caches the provider")
	w.visible["P"], w.shown["P"] = true, 1
	// time passes (possibly more than the time-to-live) before the first refresh
	if verif_Bool("timePassesBeforeTheFirstRefresh") {
		w.tick()
		if verif_Bool("andMore") {
			w.tick()
		}
	}
	w.srcs[1].lookupOnly = nil // the provider is gone from every source
	for i := 0; i < 3; i++ {
		if i > 0 {
			w.tick()
		}
		w.refreshAbsent()
	}
	verif_Reach("history done")
}
