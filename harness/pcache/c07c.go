package pcache

import (
	"context"

	"github.com/libp2p/go-libp2p/core/peer"
)

// C07 ("free of data races"): a reader running lookups, listings and result
// expansion concurrently with each kind of writer — a refresh that changes
// records, a refresh that expires a provider (entry removal), a lookup-miss
// fetch. The engine's happens-before race detector (cfg "races") watches every
// access made by the cache's own code on every explored schedule; a candidate
// is confirmed by a native -race stress replay of this same harness.
func VerifC07_RaceFreeReads() {
	c06pids = []peer.ID{"P"}
	w := c06new()
	w.seed() // P at time 1
	writer := verif_Choose("writer", 0, 2)
	if writer == 1 {
		// P has been absent for longer than its time-to-live: the coming refresh removes it
		w.srcs[0].content["P"] = c06entry{}
		w.cx.cancelled = false
		verif_Assume(w.pc.Refresh(w.cx) == nil)
		verif_SetClock(c06ttlUnits + 2)
	}
	done := make(chan struct{}, 2)
	go func() { // reader
		for i := 0; i < 2; i++ {
			_, _ = w.pc.Get(context.Background(), "P")
			_ = w.pc.List()
			_, _ = w.pc.GetResults(context.Background(), "P", []byte("c"), []byte("m"))
			_ = w.pc.Len()
		}
		done <- struct{}{}
	}()
	go func() { // writer
		switch writer {
		case 0:
			w.srcs[0].content["P"] = c06entry{present: true, ti: 2}
			_ = w.pc.Refresh(context.Background())
		case 1:
			_ = w.pc.Refresh(context.Background())
		case 2:
			_, _ = w.pc.Get(context.Background(), "Q")
		}
		done <- struct{}{}
	}()
	<-done
	<-done
	verif_Reach("both done")
	verif_Assert(w.pc.Len() >= 0, "the cache is usable after concurrent reads and writes")
}
