package pcache

import (
	"context"

	"github.com/ipni/go-libipni/find/model"
	"github.com/libp2p/go-libp2p/core/peer"
)

// C07 ("free of data races"): a reader running lookups, listings and result
// expansion concurrently with each kind of writer — a refresh that changes
// records, a refresh that expires a provider (entry removal), a lookup-miss
// fetch. The engine's happens-before race detector (cfg "races") watches every
// access made by the cache's own code on every explored schedule; a candidate
// is confirmed by a native -race stress replay of this same harness.
func VerifC07_RaceFreeReads() {
	c06pids = []peer.ID{"P"}
	w := c06new()
	w.seed() // P at time 1
	writer := verif_Choose("writer", 0, 2)
	if writer == 1 {
		// P has been absent for longer than its time-to-live: the coming refresh removes it
		w.srcs[0].content["P"] = c06entry{}
		w.cx.cancelled = false
		verif_Assume(w.pc.Refresh(w.cx) == nil)
		verif_SetClock(c06ttlUnits + 2)
	}
	done := make(chan struct{}, 2)
	go func() { // reader
		for i := 0; i < 2; i++ {
			_, _ = w.pc.Get(context.Background(), "P")
			_ = w.pc.List()
			_, _ = w.pc.GetResults(context.Background(), "P", []byte("c"), []byte("m"))
			_ = w.pc.Len()
		}
		done <- struct{}{}
	}()
	go func() { // writer
		switch writer {
		case 0:
			w.srcs[0].content["P"] = c06entry{present: true, ti: 2}
			_ = w.pc.Refresh(context.Background())
		case 1:
			_ = w.pc.Refresh(context.Background())
		case 2:
			_, _ = w.pc.Get(context.Background(), "Q")
		}
		done <- struct{}{}
	}()
	<-done
	<-done
	verif_Reach("both done")
	verif_Assert(w.pc.Len() >= 0, "the cache is usable after concurrent reads and writes")
}

// C07 (every read observes the cache as of some completed update): a listing
// that runs while a writer merges the update map into a rebuilt main map still
// contains every provider that was cached before and after the update.
func VerifC07_ListVsMerge() {
	old := c06pids
	c06pids = []peer.ID{"A", "B", "C"}
	defer func() { c06pids = old }()
	w := c06new()
	set := func(present ...bool) {
		for i, p := range present {
			w.srcs[0].content[c06pids[i]] = c06entry{present: p, ti: 1}
			w.srcs[1].content[c06pids[i]] = c06entry{}
		}
		w.cx.cancelled = false
		verif_Assume(w.pc.Refresh(w.cx) == nil)
	}
	set(true, false, false) // A: merged into the (empty) main map
	set(true, true, false)  // B: kept in the update map
	verif_Assume(len(w.pc.List()) == 2)
	writer := verif_Choose("writer", 0, 1)
	done := make(chan struct{}, 2)
	var listed []*model.ProviderInfo
	go func() {
		listed = w.pc.List()
		done <- struct{}{}
	}()
	go func() {
		if writer == 0 {
			set(true, true, true) // C appears: the update map is merged into a new main map
		} else {
			w.srcs[0].content["C"] = c06entry{present: true, ti: 1}
			_, _ = w.pc.Get(context.Background(), "C") // a lookup miss that crosses the merge threshold
		}
		done <- struct{}{}
	}()
	<-done
	<-done
	verif_Reach("both done")
	seen := map[peer.ID]int{}
	for _, pi := range listed {
		seen[pi.AddrInfo.ID]++
	}
	verif_Assert(seen["A"] == 1 && seen["B"] == 1, "a listing concurrent with a merge contains every provider cached before and after it, once")
	verif_Assert(len(listed) == 2 || (len(listed) == 3 && seen["C"] == 1), "the listing is the cache as of before or after the update")
	verif_Assert(len(w.pc.List()) == 3, "afterwards all three are listed")
}
