package schema

import (
	"crypto/rand"

	"github.com/ipfs/go-cid"
	"github.com/ipld/go-ipld-prime"
	cidlink "github.com/ipld/go-ipld-prime/linking/cid"
	"github.com/libp2p/go-libp2p/core/crypto"
	"github.com/libp2p/go-libp2p/core/peer"
)

type c05key struct {
	priv crypto.PrivKey
	id   peer.ID
}

func c05newKey() c05key {
	priv, pub, err := crypto.GenerateEd25519Key(rand.Reader)
	verif_Assume(err == nil)
	id, err := peer.IDFromPublicKey(pub)
	verif_Assume(err == nil)
	return c05key{priv, id}
}

// c05newHashedKey: a key whose peer ID is a hash of the key and does not embed
// it (ECDSA/RSA): the verifier cannot extract the key from the ID
func c05newHashedKey() c05key {
	priv, pub, err := crypto.GenerateECDSAKeyPair(rand.Reader)
	verif_Assume(err == nil)
	id, err := peer.IDFromPublicKey(pub)
	verif_Assume(err == nil)
	return c05key{priv, id}
}

// a short valid CID (CIDv1, raw, identity multihash of one symbolic byte)
func c05link(label string) ipld.Link {
	c, err := cid.Cast([]byte{0x01, 0x55, 0x00, 0x01, verif_U8(label)})
	verif_Assume(err == nil)
	return cidlink.Link{Cid: c}
}

func c05strs(label string, maxN int) []string {
	n := verif_Choose(label+"Count", 0, maxN)
	out := make([]string, n)
	for i := range out {
		out[i] = verif_Str(label, verif_Choose(label+"Len", 1, 1+verif_Tier()))
	}
	return out
}

func c05ad(provider string) *Advertisement {
	ad := &Advertisement{Provider: provider}
	if verif_Bool("hasPrevious") {
		ad.PreviousID = c05link("previous")
	}
	ad.Entries = c05link("entries")
	ad.Addresses = c05strs("address", 1+verif_Tier())
	ad.Metadata = verif_Bytes("metadata", verif_Choose("metadataLen", 0, 1+verif_Tier()))
	ad.ContextID = verif_Bytes("contextID", verif_Choose("contextIDLen", 0, 1))
	return ad
}

// C05 (a)+(c) without extended providers: a signed ad verifies and returns
// the signer; changing any single signed value makes verification fail.
func VerifC05_SignVerifyPlain() {
	k := c05newKey()
	ad := c05ad(verif_Str("provider", verif_Choose("providerLen", 0, 2)))
	ad.IsRm = verif_Bool("isRm")
	err := ad.Sign(k.priv)
	verif_Assert(err == nil, "signing succeeds")
	id, verr := ad.VerifySignature()
	verif_Reach("verified")
	verif_Assert(verr == nil, "a signed advertisement verifies")
	verif_Assert(id == k.id, "verification returns the peer ID of the signing key")

	switch verif_Choose("mutatedField", 0, 5) {
	case 0:
		old := ad.PreviousID
		if verif_Bool("newPreviousPresent") {
			ad.PreviousID = c05link("previous2")
			if old != nil {
				verif_Assume(old.(cidlink.Link).Cid != ad.PreviousID.(cidlink.Link).Cid)
			}
		} else {
			verif_Assume(old != nil)
			ad.PreviousID = nil
		}
	case 1:
		// another entries link: another digest, or the same digest under another
		// codec (the whole link is signed, not just its multihash)
		old := ad.Entries.(cidlink.Link).Cid
		codec := []byte{0x55, 0x71}[verif_Choose("entries2Codec", 0, 1)]
		c2, cerr := cid.Cast([]byte{0x01, codec, 0x00, 0x01, verif_U8("entries2")})
		verif_Assume(cerr == nil)
		ad.Entries = cidlink.Link{Cid: c2}
		verif_Assume(old != c2)
	case 2:
		old := ad.Provider
		ad.Provider = verif_Str("provider2", verif_Choose("provider2Len", 0, 2))
		verif_Assume(old != ad.Provider)
	case 3:
		verif_Assume(len(ad.Addresses) > 0)
		i := verif_Choose("addressIndex", 0, len(ad.Addresses)-1)
		old := ad.Addresses[i]
		ad.Addresses[i] = verif_Str("address2", verif_Choose("address2Len", 0, 2))
		verif_Assume(old != ad.Addresses[i])
	case 4:
		old := string(ad.Metadata)
		ad.Metadata = verif_Bytes("metadata2", verif_Choose("metadata2Len", 0, 2))
		verif_Assume(old != string(ad.Metadata))
	case 5:
		ad.IsRm = !ad.IsRm
	}
	_, merr := ad.VerifySignature()
	verif_Reach("mutated")
	verif_Assert(merr != nil, "changing a single signed value makes verification fail")
}

// c05extAd: k is the provider named by the ad (its entry is the "main" entry)
func c05extAd(k c05key, eps []c05key, mainAt int) *Advertisement {
	var ad *Advertisement
	if verif_Tier() == 0 {
		// quick tier: the advertisement's own fields have one shape (symbolic
		// contents); their shapes are varied by the plain-advertisement harness and,
		// for extended providers, in the thorough tier
		ad = &Advertisement{Provider: k.id.String(), Entries: c05link("entries"),
			Addresses: []string{verif_Str("address", 1)}, Metadata: verif_Bytes("metadata", 1),
			ContextID: verif_Bytes("contextID", verif_Choose("contextIDLen", 0, 1))} // (chain-level extended providers: no context ID)
		if verif_Bool("hasPrevious") {
			ad.PreviousID = c05link("previous")
		}
	} else {
		ad = c05ad(k.id.String())
	}
	xp := &ExtendedProvider{Override: verif_Bool("override")}
	for i := 0; i <= len(eps); i++ {
		if i == mainAt {
			xp.Providers = append(xp.Providers, Provider{ID: k.id.String(), Addresses: c05strs("mainEpAddress", 1), Metadata: verif_Bytes("mainEpMetadata", verif_Choose("mainEpMetadataLen", 0, 1))})
		}
		if i < len(eps) {
			xp.Providers = append(xp.Providers, Provider{ID: eps[i].id.String(), Addresses: c05strs("epAddress", 1), Metadata: verif_Bytes("epMetadata", verif_Choose("epMetadataLen", 0, 1))})
		}
	}
	ad.ExtendedProvider = xp
	return ad
}

// C05 (a)+(c) with extended providers signed by their own keys.
func VerifC05_SignVerifyExtended() {
	k := c05newKey()
	x := c05newKey()
	// the advertisement may be signed by a publisher key other than the provider's
	signer := k
	switch verif_Choose("adSigner", 0, 2) {
	case 1:
		signer = c05newKey() // a delegated publisher that is not a provider
	case 2:
		signer = x // a delegated publisher that is itself one of the extended providers
	}
	ad := c05extAd(k, []c05key{x}, verif_Choose("mainPosition", 0, 1))
	err := ad.SignWithExtendedProviders(signer.priv, func(id string) (crypto.PrivKey, error) {
		verif_Assert(id == x.id.String(), "key fetcher asked only for extended providers other than the main one")
		return x.priv, nil
	})
	verif_Assert(err == nil, "signing with extended providers succeeds")
	id, verr := ad.VerifySignature()
	verif_Reach("verified")
	verif_Assert(verr == nil, "an advertisement with correctly signed extended providers verifies")
	verif_Assert(id == signer.id, "verification returns the peer ID of the signing key")

	xi := 0
	for i := range ad.ExtendedProvider.Providers {
		if ad.ExtendedProvider.Providers[i].ID == x.id.String() {
			xi = i
		}
	}
	p := &ad.ExtendedProvider.Providers[xi]
	if verif_Bool("mutateMainProvidersEntry") {
		// the main provider's own entry is signed like every other entry
		p = &ad.ExtendedProvider.Providers[1-xi]
	}
	switch verif_Choose("mutatedField", 0, 5) {
	case 0:
		old := string(ad.ContextID)
		ad.ContextID = verif_Bytes("contextID2", verif_Choose("contextID2Len", 0, 2))
		verif_Assume(old != string(ad.ContextID))
	case 1:
		ad.ExtendedProvider.Override = !ad.ExtendedProvider.Override
	case 2:
		if verif_Bool("newIdentityIsListedInAnotherEntry") {
			// the identity of the other entry: each entry is verified on its own
			for i := range ad.ExtendedProvider.Providers {
				if q := &ad.ExtendedProvider.Providers[i]; q != p {
					p.ID = q.ID
					break
				}
			}
		} else {
			y := c05newKey()
			p.ID = y.id.String()
		}
	case 3:
		verif_Assume(len(p.Addresses) > 0)
		old := p.Addresses[0]
		p.Addresses[0] = verif_Str("epAddress2", verif_Choose("epAddress2Len", 0, 2))
		verif_Assume(old != p.Addresses[0])
	case 4:
		old := string(p.Metadata)
		p.Metadata = verif_Bytes("epMetadata2", verif_Choose("epMetadata2Len", 0, 2))
		verif_Assume(old != string(p.Metadata))
	case 5:
		// the main provider must stay listed
		var rest []Provider
		for _, q := range ad.ExtendedProvider.Providers {
			if q.ID != k.id.String() {
				rest = append(rest, q)
			}
		}
		ad.ExtendedProvider.Providers = rest
	}
	_, merr := ad.VerifySignature()
	verif_Reach("mutated")
	verif_Assert(merr != nil, "changing a single extended-provider signed value makes verification fail")
}

// C05 (b): every extended-provider entry must be signed by the key of the
// identity it names (the ad's signer for the main provider's entry).
func VerifC05_ExtendedSignerIdentity() {
	k := c05newKey()
	x := c05newKey()
	if verif_Bool("extendedProviderHasHashedID") {
		x = c05newHashedKey() // every key type: also identities that do not embed their key
	}
	z := c05newKey() // unrelated key
	ad := c05extAd(k, []c05key{x}, verif_Choose("mainPosition", 0, 1))
	wrongFor := verif_Choose("entrySignedByUnrelatedKey", 0, 1) // 0: x's entry, 1: main provider's entry
	var err error
	if wrongFor == 0 {
		err = ad.SignWithExtendedProviders(k.priv, func(id string) (crypto.PrivKey, error) { return z.priv, nil })
	} else {
		// sign everything properly, then re-seal the main provider's entry with z:
		// the library offers no API for that, so the ad is signed by k while the
		// main entry comes from an ad signed by z with identical content
		err = ad.SignWithExtendedProviders(k.priv, func(id string) (crypto.PrivKey, error) { return x.priv, nil })
		verif_Assert(err == nil, "signing succeeds")
		other := *ad
		xp := *ad.ExtendedProvider
		xp.Providers = append([]Provider{}, ad.ExtendedProvider.Providers...)
		other.ExtendedProvider = &xp
		err = other.SignWithExtendedProviders(z.priv, func(id string) (crypto.PrivKey, error) { return x.priv, nil })
		for i := range ad.ExtendedProvider.Providers {
			if ad.ExtendedProvider.Providers[i].ID == k.id.String() {
				ad.ExtendedProvider.Providers[i].Signature = xp.Providers[i].Signature
			}
		}
	}
	verif_Assert(err == nil, "signing succeeds")
	_, verr := ad.VerifySignature()
	verif_Reach("verified")
	verif_Assert(verr != nil, "an extended-provider entry sealed by a key other than the identity it names is rejected")
}

// C05 (b) for removal advertisements: extended-provider signatures cannot be
// made for a removal ad, so a removal ad that carries extended providers
// (attached after a valid plain signature) has entries nobody verifiably
// signed and must not verify.
func VerifC05_RemovalWithExtended() {
	k := c05newKey()
	x := c05newKey()
	ad := c05ad(k.id.String())
	ad.IsRm = true
	verif_Assert(ad.Sign(k.priv) == nil, "signing a removal advertisement succeeds")
	_, verr := ad.VerifySignature()
	verif_Assert(verr == nil, "a signed removal advertisement verifies")
	xp := &ExtendedProvider{Override: verif_Bool("override")}
	if verif_Bool("mainProviderListed") {
		xp.Providers = append(xp.Providers, Provider{ID: k.id.String(), Signature: verif_Bytes("mainEntrySignature", verif_Choose("mainEntrySignatureLen", 0, 1))})
	}
	xp.Providers = append(xp.Providers, Provider{ID: x.id.String(), Addresses: c05strs("epAddress", 1), Signature: verif_Bytes("entrySignature", verif_Choose("entrySignatureLen", 0, 1))})
	ad.ExtendedProvider = xp
	_, verr = ad.VerifySignature()
	verif_Reach("verified")
	verif_Assert(verr != nil, "extended-provider entries that nobody verifiably signed are rejected, on a removal advertisement too")
}

// C05 (altering the key, payload or signature bytes inside any signature
// envelope makes verification fail): one byte, at a symbolic position and with
// a symbolic non-zero mask, of the advertisement's envelope or of an
// extended-provider entry's envelope.
func VerifC05_TamperEnvelope() {
	k := c05newKey()
	x := c05newKey()
	// a fixed-shape advertisement: the explored space is the altered byte
	c, cerr := cid.Cast([]byte{0x01, 0x55, 0x00, 0x01, 0x07})
	verif_Assume(cerr == nil)
	ad := &Advertisement{Provider: k.id.String(), Entries: cidlink.Link{Cid: c}, Addresses: []string{"/ip4/1.2.3.4/tcp/5"}, Metadata: []byte{0x80, 0x12}, ContextID: []byte("ctx")}
	var target *[]byte
	if verif_Bool("extendedProviders") {
		ad.ExtendedProvider = &ExtendedProvider{Providers: []Provider{
			{ID: k.id.String(), Addresses: []string{"/ip4/1.2.3.4/tcp/5"}},
			{ID: x.id.String(), Addresses: []string{"/ip4/5.6.7.8/tcp/9"}, Metadata: []byte{0x80, 0x12}},
		}}
		err := ad.SignWithExtendedProviders(k.priv, func(id string) (crypto.PrivKey, error) { return x.priv, nil })
		verif_Assume(err == nil)
		switch verif_Choose("alteredEnvelope", 0, 2) {
		case 0:
			target = &ad.Signature
		case 1:
			target = &ad.ExtendedProvider.Providers[0].Signature
		case 2:
			target = &ad.ExtendedProvider.Providers[1].Signature
		}
	} else {
		verif_Assume(ad.Sign(k.priv) == nil)
		target = &ad.Signature
	}
	_, verr := ad.VerifySignature()
	verif_Assert(verr == nil, "the untouched advertisement verifies")
	env := append([]byte{}, (*target)...)
	verif_Assume(len(env) > 0)
	// (counted from the end, where the signature is in the real envelope encoding and
	// in the engine's model of it alike: a position then names the same part of the
	// envelope in the symbolic run and in its native replay)
	pos := len(env) - 1 - verif_Choose("alteredByteFromEnd", 0, len(env)-1)
	m := verif_U8("xorMask")
	verif_Assume(m != 0)
	env[pos] ^= m
	*target = env
	_, terr := ad.VerifySignature()
	verif_Reach("verified tampered")
	verif_Assert(terr != nil, "an advertisement with one altered byte in a signature envelope does not verify")
}
