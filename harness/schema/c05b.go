package schema

import (
	"bytes"

	"github.com/ipfs/go-cid"
	"github.com/ipld/go-ipld-prime/codec/dagcbor"
	"github.com/ipld/go-ipld-prime/codec/dagjson"
	"github.com/libp2p/go-libp2p/core/crypto"
)

// C05 (a) after an encode/decode round trip through the library's own
// conversion functions (ToNode, the codec, BytesToAdvertisement /
// UnwrapAdvertisement): the decoded advertisement still verifies and names the
// same signer, with and without extended providers, for both codecs. (The
// codecs themselves are the engine's model — decode(encode(x)) = x —; what is
// decided is what the library's conversion code does around them.)
func VerifC05_VerifiesAfterRoundTrip() {
	k := c05newKey()
	x := c05newKey()
	var ad *Advertisement
	withEP := verif_Bool("withExtendedProviders")
	if withEP {
		ad = c05extAd(k, []c05key{x}, verif_Choose("mainPosition", 0, 1))
		// absent values may be nil or empty in memory; a decoded copy has them empty
		for i := range ad.ExtendedProvider.Providers {
			if p := &ad.ExtendedProvider.Providers[i]; len(p.Metadata) == 0 && verif_Bool("emptyMetadataIsNil") {
				p.Metadata = nil
			}
		}
		err := ad.SignWithExtendedProviders(k.priv, func(id string) (crypto.PrivKey, error) { return x.priv, nil })
		verif_Assert(err == nil, "signing with extended providers succeeds")
	} else {
		ad = c05ad(k.id.String())
		ad.IsRm = verif_Bool("isRemoval")
		verif_Assert(ad.Sign(k.priv) == nil, "signing succeeds")
	}
	node, err := ad.ToNode()
	verif_Assert(err == nil && node != nil, "a signed advertisement converts to an IPLD node")
	if err != nil {
		return
	}
	var buf bytes.Buffer
	codec := uint64(cid.DagCBOR)
	if verif_Bool("dagJSON") {
		codec = cid.DagJSON
		err = dagjson.Encode(node, &buf)
	} else {
		err = dagcbor.Encode(node, &buf)
	}
	verif_Assert(err == nil, "the node encodes")
	c, cerr := cid.Prefix{Version: 1, Codec: codec, MhType: 0x12, MhLength: -1}.Sum(buf.Bytes())
	verif_Assume(cerr == nil)
	back, berr := BytesToAdvertisement(c, buf.Bytes())
	verif_Reach("decoded")
	verif_Assert(berr == nil, "the encoding of an advertisement decodes")
	if berr != nil {
		return
	}
	id, verr := back.VerifySignature()
	verif_Assert(verr == nil && id == k.id, "the decoded advertisement verifies and names the key that signed it")
	verif_Assert(back.Provider == ad.Provider && back.IsRm == ad.IsRm && bytes.Equal(back.ContextID, ad.ContextID) && bytes.Equal(back.Metadata, ad.Metadata) &&
		len(back.Addresses) == len(ad.Addresses) && (back.PreviousID == nil) == (ad.PreviousID == nil) && (back.ExtendedProvider == nil) == (ad.ExtendedProvider == nil),
		"the decoded advertisement has the fields of the original, optional parts absent or present as before")
	if back.PreviousID != nil && ad.PreviousID != nil {
		verif_Assert(back.PreviousCid() == ad.PreviousCid(), "the previous link is preserved")
	}
}
