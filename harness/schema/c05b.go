package schema

import (
	"bytes"

	"github.com/ipfs/go-cid"
	"github.com/ipld/go-ipld-prime/codec/dagcbor"
	"github.com/ipld/go-ipld-prime/codec/dagjson"
	cidlink "github.com/ipld/go-ipld-prime/linking/cid"
	"github.com/libp2p/go-libp2p/core/crypto"
)

// C05 (a) after an encode/decode round trip through the library's own
// conversion functions (ToNode, the codec, BytesToAdvertisement /
// UnwrapAdvertisement): the decoded advertisement still verifies and names the
// same signer, with and without extended providers, for both codecs. (The
// codecs themselves are the engine's model — decode(encode(x)) = x —; what is
// decided is what the library's conversion code does around them.)
func VerifC05_VerifiesAfterRoundTrip() {
	k := c05newKey()
	x := c05newKey()
	var ad *Advertisement
	withEP := verif_Bool("withExtendedProviders")
	if withEP {
		ad = c05extAd(k, []c05key{x}, verif_Choose("mainPosition", 0, 1))
		// absent values may be nil or empty in memory; a decoded copy has them empty
		for i := range ad.ExtendedProvider.Providers {
			if p := &ad.ExtendedProvider.Providers[i]; len(p.Metadata) == 0 && verif_Bool("emptyMetadataIsNil") {
				p.Metadata = nil
			}
		}
		err := ad.SignWithExtendedProviders(k.priv, func(id string) (crypto.PrivKey, error) { return x.priv, nil })
		verif_Assert(err == nil, "signing with extended providers succeeds")
	} else {
		ad = c05ad(k.id.String())
		ad.IsRm = verif_Bool("isRemoval")
		verif_Assert(ad.Sign(k.priv) == nil, "signing succeeds")
	}
	node, err := ad.ToNode()
	verif_Assert(err == nil && node != nil, "a signed advertisement converts to an IPLD node")
	if err != nil {
		return
	}
	var buf bytes.Buffer
	codec := uint64(cid.DagCBOR)
	if verif_Bool("dagJSON") {
		codec = cid.DagJSON
		err = dagjson.Encode(node, &buf)
	} else {
		err = dagcbor.Encode(node, &buf)
	}
	verif_Assert(err == nil, "the node encodes")
	c, cerr := cid.Prefix{Version: 1, Codec: codec, MhType: 0x12, MhLength: -1}.Sum(buf.Bytes())
	verif_Assume(cerr == nil)
	back, berr := BytesToAdvertisement(c, buf.Bytes())
	verif_Reach("decoded")
	verif_Assert(berr == nil, "the encoding of an advertisement decodes")
	if berr != nil {
		return
	}
	id, verr := back.VerifySignature()
	verif_Assert(verr == nil && id == k.id, "the decoded advertisement verifies and names the key that signed it")
	verif_Assert(back.Provider == ad.Provider && back.IsRm == ad.IsRm && bytes.Equal(back.ContextID, ad.ContextID) && bytes.Equal(back.Metadata, ad.Metadata) &&
		len(back.Addresses) == len(ad.Addresses) && (back.PreviousID == nil) == (ad.PreviousID == nil) && (back.ExtendedProvider == nil) == (ad.ExtendedProvider == nil),
		"the decoded advertisement has the fields of the original, optional parts absent or present as before")
	if back.PreviousID != nil && ad.PreviousID != nil {
		verif_Assert(back.PreviousCid() == ad.PreviousCid(), "the previous link is preserved")
	}
}

// C05 (the provider is a signed VALUE, kept as written): a peer ID may be
// written in more than one way (base58, or the libp2p-key CID form). An
// advertisement whose provider is written in the CID form is signed, encoded,
// decoded and verified: the decoded copy carries the provider text as it was
// written and therefore verifies.
func VerifC05_ProviderTextIsKeptAsWritten() {
	k := c05newKey()
	provider := []string{"1tuE", "bafzaaavkae"}[verif_Choose("providerWrittenAs", 0, 1)] // one identity, base58 and CID form
	c, cerr := cid.Cast([]byte{0x01, 0x55, 0x00, 0x01, 0x07})
	verif_Assume(cerr == nil)
	ad := &Advertisement{Provider: provider, Entries: cidlink.Link{Cid: c}, Addresses: []string{"/ip4/1.2.3.4/tcp/5"}, Metadata: []byte{0x80, 0x12}, ContextID: []byte("ctx")}
	verif_Assert(ad.Sign(k.priv) == nil, "signing succeeds")
	id, verr := ad.VerifySignature()
	verif_Assert(verr == nil && id == k.id, "the signed advertisement verifies")
	node, err := ad.ToNode()
	verif_Assume(err == nil)
	var buf bytes.Buffer
	codec := uint64(cid.DagCBOR)
	if verif_Bool("dagJSON") {
		codec = cid.DagJSON
		err = dagjson.Encode(node, &buf)
	} else {
		err = dagcbor.Encode(node, &buf)
	}
	verif_Assume(err == nil)
	ac, serr := cid.Prefix{Version: 1, Codec: codec, MhType: 0x12, MhLength: -1}.Sum(buf.Bytes())
	verif_Assume(serr == nil)
	back, berr := BytesToAdvertisement(ac, buf.Bytes())
	verif_Reach("decoded")
	verif_Assert(berr == nil, "the encoding decodes")
	if berr != nil {
		return
	}
	verif_Assert(back.Provider == provider, "the provider text is a signed value: it comes back as it was written")
	id2, verr2 := back.VerifySignature()
	verif_Assert(verr2 == nil && id2 == k.id, "the decoded advertisement verifies")
}
