package client

import (
	"bytes"
	"context"
	"encoding/json"
	"io"
	"net/http"
	"strings"
	"time"

	"github.com/ipni/go-libipni/dhash"
	"github.com/ipni/go-libipni/find/model"
	"github.com/libp2p/go-libp2p/core/peer"
	b58 "github.com/mr-tron/base58/base58"
	"github.com/multiformats/go-multihash"
)

// an in-memory dhstore, populated through the dhash functions
type c12store struct {
	evks map[string][][]byte // second multihash -> encrypted value keys
	mds  map[string][]byte   // sha256(value key) -> encrypted metadata
}

func (s *c12store) FindMultihash(ctx context.Context, dmh multihash.Multihash) ([]model.EncryptedMultihashResult, error) {
	e, ok := s.evks[string(dmh)]
	if !ok {
		return nil, nil
	}
	return []model.EncryptedMultihashResult{{Multihash: dmh, EncryptedValueKeys: e}}, nil
}

func (s *c12store) FindMetadata(ctx context.Context, hvk []byte) ([]byte, error) {
	return s.mds[string(hvk)], nil
}

// the same store behind dhstore's HTTP API (/encrypted/multihash/<b58>, /metadata/<b58>)
type c12rt struct{ st *c12store }

func (r *c12rt) RoundTrip(req *http.Request) (*http.Response, error) {
	answer := func(status int, v interface{}) (*http.Response, error) {
		var body []byte
		if v != nil {
			b, err := json.Marshal(v)
			verif_Assume(err == nil)
			body = b
		}
		return &http.Response{StatusCode: status, Header: http.Header{}, Body: io.NopCloser(bytes.NewReader(body)), Request: req}, nil
	}
	p := req.URL.Path
	for dmh, evks := range r.st.evks {
		if p == "/encrypted/multihash/"+multihash.Multihash(dmh).B58String() {
			return answer(http.StatusOK, &model.FindResponse{EncryptedMultihashResults: []model.EncryptedMultihashResult{{Multihash: multihash.Multihash(dmh), EncryptedValueKeys: evks}}})
		}
	}
	if strings.HasPrefix(p, "/metadata/") {
		for hvk, emd := range r.st.mds {
			if p == "/metadata/"+b58.Encode([]byte(hvk)) {
				return answer(http.StatusOK, &struct{ EncryptedMetadata []byte }{emd})
			}
		}
	}
	return answer(http.StatusNotFound, nil)
}

// an indexer's /providers/<id> endpoint that knows the providers of the index
type c12providers struct{ triples []c12triple }

func (r *c12providers) RoundTrip(req *http.Request) (*http.Response, error) {
	for _, t := range r.triples {
		if req.URL.Path == "/providers/"+t.pid.String() {
			b, err := json.Marshal(&model.ProviderInfo{AddrInfo: peer.AddrInfo{ID: t.pid}})
			verif_Assume(err == nil)
			return &http.Response{StatusCode: http.StatusOK, Header: http.Header{}, Body: io.NopCloser(bytes.NewReader(b)), Request: req}, nil
		}
	}
	return &http.Response{StatusCode: http.StatusNotFound, Header: http.Header{}, Body: io.NopCloser(bytes.NewReader(nil)), Request: req}, nil
}

type c12triple struct {
	pid     peer.ID
	ctx, md []byte
	indexed bool // metadata still present in the store
}

// C12 (f): a reader-privacy find over a store populated through the dhash
// functions returns exactly the providers and metadata indexed for that
// multihash; value keys that cannot be decrypted, and entries whose metadata was
// removed, are skipped without failing or hiding the others.
func VerifC12_FindWorkflow() {
	mh, err := multihash.Encode([]byte{0x11, 0x22, 0x33}, multihash.IDENTITY)
	verif_Assume(err == nil)
	other, err := multihash.Encode([]byte{0x44}, multihash.IDENTITY)
	verif_Assume(err == nil)
	st := &c12store{evks: map[string][][]byte{}, mds: map[string][]byte{}}
	n := verif_Choose("indexedTriples", 0, 2+verif_Tier())
	sameCtx := n > 1 && verif_Bool("providersShareContextID")
	var triples []c12triple
	dmh := string(dhash.SecondMultihash(mh))
	for i := 0; i < n; i++ {
		pidBytes := []byte{0x00, 0x02, byte(0xa0 + i), 0x77}
		pid, perr := peer.IDFromBytes(pidBytes)
		verif_Assume(perr == nil)
		t := c12triple{pid: pid, ctx: []byte{byte(0xc0 + i)}, md: []byte{byte(0xd0 + i), byte(i)}[:1+verif_Choose("metadataExtraLen", 0, 1)], indexed: !verif_Bool("metadataRemoved")}
		if sameCtx {
			t.ctx = []byte{0xc0} // context IDs are scoped to their provider
		}
		vk := dhash.CreateValueKey(t.pid, t.ctx)
		evk, eerr := dhash.EncryptValueKey(vk, mh)
		verif_Assume(eerr == nil)
		st.evks[dmh] = append(st.evks[dmh], evk)
		if t.indexed {
			emd, merr := dhash.EncryptMetadata(t.md, vk)
			verif_Assume(merr == nil)
			st.mds[string(dhash.SHA256(vk, nil))] = emd
		}
		triples = append(triples, t)
		if verif_Bool("garbageKeyFollows") {
			// an encrypted value key that does not decrypt under this multihash
			junk, jerr := dhash.EncryptValueKey(vk, other)
			verif_Assume(jerr == nil)
			st.evks[dmh] = append(st.evks[dmh], junk)
		}
	}
	// through the public constructor: metadata-only mode over the model store,
	// reached directly or through the client's own HTTP dhstore backend
	var c *DHashClient
	var cerr error
	switch verif_Choose("clientKind", 0, 2) {
	case 0:
		c, cerr = NewDHashClient(WithDHStoreAPI(st), WithMetadataOnly(true))
	case 1:
		c, cerr = NewDHashClient(WithDHStoreURL("http://dhstore.example"), WithClient(&http.Client{Transport: &c12rt{st: st}}), WithMetadataOnly(true))
	case 2:
		// with provider information: the client's own provider cache over the
		// library's HTTP source (no preload: every provider is a lookup miss that
		// asks the indexer's /providers/<id> endpoint)
		oldRT := http.DefaultTransport
		defer func() { http.DefaultTransport = oldRT }()
		http.DefaultTransport = &c12providers{triples: triples}
		c, cerr = NewDHashClient(WithDHStoreAPI(st), WithProvidersURL("http://indexer.example"), WithPcachePreload(false), WithPcacheTTL(time.Hour))
	}
	verif_Assume(cerr == nil && c != nil)
	resp, ferr := c.Find(context.Background(), mh)
	verif_Reach("found")
	verif_Assert(ferr == nil && resp != nil, "the find succeeds")
	if resp == nil {
		return
	}
	var want []c12triple
	for _, t := range triples {
		if t.indexed {
			want = append(want, t)
		}
	}
	if len(want) == 0 {
		verif_Assert(len(resp.MultihashResults) == 0, "nothing indexed: an empty response")
		return
	}
	verif_Assert(len(resp.MultihashResults) == 1 && bytes.Equal(resp.MultihashResults[0].Multihash, mh), "results are for the multihash that was looked up")
	if len(resp.MultihashResults) != 1 {
		return
	}
	got := resp.MultihashResults[0].ProviderResults
	verif_Assert(len(got) == len(want), "exactly the indexed providers are returned: removed or undecryptable entries are skipped and hide nothing else")
	if len(got) == len(want) {
		for i := range want {
			verif_Assert(got[i].Provider != nil && got[i].Provider.ID == want[i].pid && bytes.Equal(got[i].ContextID, want[i].ctx) && bytes.Equal(got[i].Metadata, want[i].md), "each result carries the provider, context ID and metadata that were indexed")
		}
	}
	// a different multihash finds nothing
	r2, e2 := c.Find(context.Background(), other)
	verif_Assert(e2 == nil && r2 != nil && len(r2.MultihashResults) == 0, "a multihash that was not indexed yields an empty response")
}
