package message

import (
	"bytes"
	"io"
	"strings"

	"github.com/ipfs/go-cid"
	cbg "github.com/whyrusleeping/cbor-gen"
)

func c10cid(b byte) cid.Cid {
	c, err := cid.Cast([]byte{0x01, 0x55, 0x00, 0x01, b})
	verif_Assume(err == nil)
	return c
}

func c10equiv(a, b *Message) bool {
	if a.Cid != b.Cid || a.OrigPeer != b.OrigPeer || !bytes.Equal(a.ExtraData, b.ExtraData) || len(a.Addrs) != len(b.Addrs) {
		return false
	}
	for i := range a.Addrs {
		if !bytes.Equal(a.Addrs[i], b.Addrs[i]) {
			return false
		}
	}
	return true
}

// C10 (a)+(b): every message survives its CBOR encoding (nil and empty are
// equivalent); the array has 4 fields exactly when there is an original peer.
func VerifC10_RoundTrip() {
	m := &Message{Cid: c10cid(verif_U8("cidDigest"))}
	na := verif_Choose("addresses", 0, 2)
	for i := 0; i < na; i++ {
		m.Addrs = append(m.Addrs, verif_Bytes("address", verif_Choose("addressLen", 0, 2+verif_Tier())))
	}
	if na == 0 && verif_Bool("emptyAddrsNotNil") {
		m.Addrs = [][]byte{}
	}
	m.ExtraData = verif_Bytes("extraData", verif_Choose("extraDataLen", 0, 2+verif_Tier()))
	if len(m.ExtraData) == 0 && verif_Bool("extraDataNil") {
		m.ExtraData = nil
	}
	m.OrigPeer = verif_Str("origPeer", verif_Choose("origPeerLen", 0, 2))
	var buf bytes.Buffer
	err := m.MarshalCBOR(&buf)
	verif_Assert(err == nil, "a message within the size caps encodes")
	wire := buf.Bytes()
	verif_Assert(len(wire) > 0 && wire[0] == 0x83+b2i(m.OrigPeer != ""), "3-field array without original peer, 4-field array with it")
	var d Message
	var rd io.Reader = bytes.NewReader(wire)
	if verif_Bool("streamArrivesOneByteAtATime") {
		rd = &c10slowReader{data: wire} // network streams deliver what they have, not what was asked for
	}
	derr := d.UnmarshalCBOR(rd)
	verif_Reach("decoded")
	verif_Assert(derr == nil, "the encoding of a message decodes")
	verif_Assert(c10equiv(m, &d), "the decoded message equals the original")
}

// C10 at the field caps the two sides share (cbor-gen: 8192 elements or text
// bytes): a message whose original-peer text or address list is exactly at
// the cap (and one below it) encodes, decodes and compares equal; one past the
// cap is exercised for panics only.
func VerifC10_FieldCaps() {
	m := &Message{Cid: c10cid(1)}
	over := verif_Choose("relativeToCap", 0, 2) - 1 // -1, 0, +1
	switch verif_Choose("field", 0, 1) {
	case 0:
		m.OrigPeer = strings.Repeat("p", cbg.MaxLength+over)
	case 1:
		m.Addrs = make([][]byte, cbg.MaxLength+over)
		m.OrigPeer = []string{"", "orig"}[verif_Choose("withOrigPeer", 0, 1)]
	}
	var buf bytes.Buffer
	err := m.MarshalCBOR(&buf)
	verif_Reach("encoded")
	if over <= 0 {
		verif_Assert(err == nil, "a message within the size caps encodes")
	}
	if err != nil || over > 0 {
		// (one past the cap: whether the encoder or only the decoder refuses it is
		// outside the claim — the property speaks of messages within the caps)
		return
	}
	var d Message
	derr := d.UnmarshalCBOR(bytes.NewReader(buf.Bytes()))
	verif_Assert(derr == nil, "the encoding of a message decodes")
	verif_Assert(derr != nil || (d.OrigPeer == m.OrigPeer && len(d.Addrs) == len(m.Addrs) && d.Cid == m.Cid), "the decoded message equals the original")
}

// c10slowReader returns at most one byte per Read call.
type c10slowReader struct {
	data []byte
	pos  int
}

func (r *c10slowReader) Read(p []byte) (int, error) {
	if r.pos >= len(r.data) {
		return 0, io.EOF
	}
	if len(p) == 0 {
		return 0, nil
	}
	p[0] = r.data[r.pos]
	r.pos++
	return 1, nil
}

func b2i(b bool) byte {
	if b {
		return 1
	}
	return 0
}

// C10 (c): decoding arbitrary bytes is total and allocation-bounded; an
// accepted input yields a message that re-encodes to an equivalent message.
func c10decodeArbitrary(in []byte) {
	// the fixed field caps of cbor-gen: 8192 elements, 2 MiB bytes
	verif_AllocCap(cbg.ByteArrayMaxLen)
	var d Message
	err := d.UnmarshalCBOR(bytes.NewReader(in))
	verif_Reach("returned")
	if err != nil {
		return
	}
	verif_Reach("accepted")
	verif_Assert(len(d.Addrs) <= cbg.MaxLength && len(d.ExtraData) <= cbg.ByteArrayMaxLen, "decoded fields respect the caps")
	var buf bytes.Buffer
	verif_Assert(d.MarshalCBOR(&buf) == nil, "an accepted message re-encodes")
	var d2 Message
	verif_Assert(d2.UnmarshalCBOR(bytes.NewReader(buf.Bytes())) == nil && c10equiv(&d, &d2), "an accepted message re-encodes to an equivalent message")
}

// arbitrary bytes from the very first byte (header, tag and CID parsing)
func VerifC10_DecodeHead() {
	n := verif_Choose("len", 0, 6+2*verif_Tier())
	in := verif_Bytes("in", n)
	c10decodeArbitrary(in)
	// the smallest well-formed message has 12 bytes
	var d Message
	verif_Assert(d.UnmarshalCBOR(bytes.NewReader(in)) != nil, "truncated input is rejected, not accepted as a shorter message")
}

// a well-formed array header and CID followed by arbitrary bytes (address list,
// extra data, original peer)
func VerifC10_DecodeTail() {
	fields := byte(0x83 + verif_Choose("fieldsMinus3", 0, 1))
	head := []byte{fields, 0xd8, 0x2a, 0x46, 0x00, 0x01, 0x55, 0x00, 0x01, 0xaa}
	n := verif_Choose("len", 0, 5+2*verif_Tier())
	c10decodeArbitrary(append(head, verif_Bytes("tail", n)...))
}

// the same with a one-element address list whose element header is arbitrary
// (every CBOR length form, up to the 8-byte one): the per-address cap
func VerifC10_DecodeAddressHeader() {
	fields := byte(0x83 + verif_Choose("fieldsMinus3", 0, 1))
	head := []byte{fields, 0xd8, 0x2a, 0x46, 0x00, 0x01, 0x55, 0x00, 0x01, 0xaa, 0x81}
	c10decodeArbitrary(append(head, verif_Bytes("addressHeaderAndRest", 9)...))
}

// C10 (d): addresses with unknown protocol codes are skipped, malformed ones fail.
func VerifC10_GetAddrs() {
	good := []byte{0x04, 1, 2, 3, 4, 0x06, 0, 80} // /ip4/1.2.3.4/tcp/80
	unknown := []byte{0xfa, 0x7f, 0x01}           // an unassigned protocol code
	truncated := []byte{0x04, 1, 2}               // ip4 with too few bytes
	var m Message
	wantOK, wantErr := 0, false
	n := verif_Choose("addresses", 0, 3)
	for i := 0; i < n; i++ {
		switch verif_Choose("kind", 0, 2) {
		case 0:
			m.Addrs = append(m.Addrs, good)
			wantOK++
		case 1:
			m.Addrs = append(m.Addrs, unknown)
		case 2:
			m.Addrs = append(m.Addrs, truncated)
			wantErr = true
		}
	}
	addrs, err := m.GetAddrs()
	verif_Reach("returned")
	if wantErr {
		verif_Assert(err != nil, "a malformed address fails the message")
	} else {
		verif_Assert(err == nil && len(addrs) == wantOK, "addresses with unknown protocols are skipped, the others are returned")
	}
}

// C10: decoding into a Message value that was used before gives the same result
// as decoding into a fresh one (no field of the earlier message leaks).
func VerifC10_DecodeIntoUsedValue() {
	first := &Message{Cid: c10cid(1), Addrs: [][]byte{{1, 2}}, ExtraData: []byte{9, 9}, OrigPeer: "px"}
	second := &Message{Cid: c10cid(verif_U8("cidDigest"))}
	if verif_Bool("secondHasAddr") {
		second.Addrs = [][]byte{verif_Bytes("address", 1)}
	}
	if verif_Bool("secondHasExtra") {
		second.ExtraData = verif_Bytes("extra", 1)
	}
	if verif_Bool("secondHasOrigPeer") {
		second.OrigPeer = verif_Str("origPeer", 1)
	}
	var b1, b2 bytes.Buffer
	verif_Assume(first.MarshalCBOR(&b1) == nil && second.MarshalCBOR(&b2) == nil)
	var d Message
	verif_Assert(d.UnmarshalCBOR(bytes.NewReader(b1.Bytes())) == nil && c10equiv(&d, first), "the first message decodes")
	err := d.UnmarshalCBOR(bytes.NewReader(b2.Bytes()))
	verif_Reach("decoded twice")
	verif_Assert(err == nil, "a valid encoding decodes into a previously used value")
	verif_Assert(c10equiv(&d, second), "the decoded message equals the second original: nothing of the earlier message remains")
}
