package dhash

import (
	"bytes"

	"github.com/libp2p/go-libp2p/core/peer"
	"github.com/multiformats/go-multihash"
)

// C12 (a)+(b): encryption round-trips and is deterministic, for value keys
// and metadata; a different passphrase fails closed.
func VerifC12_RoundTrip() {
	n := verif_Choose("payloadLen", 0, 3)
	payload := verif_Bytes("payload", n)
	m := verif_Choose("passLen", 1, 3)
	pass := verif_Bytes("pass", m)
	meta := verif_Choose("metadataVariant", 0, 1) == 1

	var enc, enc2, dec []byte
	var err, err2, derr error
	if meta {
		enc, err = EncryptMetadata(payload, pass)
		enc2, err2 = EncryptMetadata(payload, pass)
	} else {
		enc, err = EncryptValueKey(payload, pass)
		enc2, err2 = EncryptValueKey(payload, pass)
	}
	verif_Assert(err == nil && err2 == nil, "encryption succeeds")
	verif_Assert(len(enc) == nonceLen+n+16, "ciphertext is nonce + payload + tag")
	verif_Assert(bytes.Equal(enc, enc2), "encryption is deterministic")
	if verif_Bool("otherCallsInBetween") {
		// the functions are pure: what other callers hashed or encrypted in between
		// (a second hash of another multihash, a longer passphrase) changes nothing
		omh, oerr := multihash.Encode([]byte{0x77, 0x88, 0x99}, multihash.IDENTITY)
		verif_Assume(oerr == nil)
		_ = SecondMultihash(omh)
		_, lerr := EncryptValueKey([]byte("other payload"), []byte("a longer passphrase than the one above"))
		verif_Assume(lerr == nil)
		var enc3 []byte
		var err3 error
		if meta {
			enc3, err3 = EncryptMetadata(payload, pass)
		} else {
			enc3, err3 = EncryptValueKey(payload, pass)
		}
		verif_Assert(err3 == nil && bytes.Equal(enc, enc3), "encrypting the same inputs later gives identical bytes, whatever was encrypted or hashed in between")
	}
	if meta {
		dec, derr = DecryptMetadata(enc, pass)
	} else {
		dec, derr = DecryptValueKey(enc, pass)
	}
	verif_Reach("decrypted")
	verif_Assert(derr == nil, "decrypting the encryption succeeds")
	verif_Assert(bytes.Equal(dec, payload), "decrypting the encryption returns the payload")

	// a different passphrase fails closed (instance of collision resistance of
	// the key derivation is assumed: different passphrases give different keys)
	pass2 := verif_Bytes("pass2", m)
	verif_Assume(!bytes.Equal(pass, pass2))
	verif_Assume(!bytes.Equal(deriveKey(pass), deriveKey(pass2)))
	var d2 []byte
	var e2 error
	if meta {
		d2, e2 = DecryptMetadata(enc, pass2)
	} else {
		d2, e2 = DecryptValueKey(enc, pass2)
	}
	verif_Assert(e2 != nil && d2 == nil, "decryption with a different passphrase returns an error and no data")
	// decrypting — successfully or not — leaves the encrypted value as it was: it
	// still equals a fresh encryption and still decrypts
	verif_Assert(bytes.Equal(enc, enc2), "an encrypted value is not changed by decrypting it or by a failed attempt to")
	var d3 []byte
	var e3 error
	if meta {
		d3, e3 = DecryptMetadata(enc, pass)
	} else {
		d3, e3 = DecryptValueKey(enc, pass)
	}
	verif_Assert(e3 == nil && bytes.Equal(d3, payload), "and it decrypts again")
}

// C12 (c): decryption of arbitrary bytes is total and fails closed.
func VerifC12_DecryptTotal() {
	maxN := 30
	n := verif_Choose("len", 0, maxN)
	in := verif_Bytes("ciphertext", n)
	pass := verif_Bytes("pass", 2)
	meta := verif_Choose("metadataVariant", 0, 1) == 1
	var out []byte
	var err error
	if meta {
		out, err = DecryptMetadata(in, pass)
	} else {
		out, err = DecryptValueKey(in, pass)
	}
	verif_Reach("returned")
	// nothing was encrypted in this run, so any accepted ciphertext is a forgery
	verif_Assert(err != nil, "ciphertext not produced by encryption is rejected")
	verif_Assert(out == nil, "no data on error")
}

// C12 (c'): any alteration or truncation of a genuine ciphertext is rejected.
func VerifC12_Tamper() {
	n := verif_Choose("payloadLen", 0, 2)
	payload := verif_Bytes("payload", n)
	pass := verif_Bytes("pass", 2)
	enc, err := EncryptValueKey(payload, pass)
	verif_Assert(err == nil, "encryption succeeds")
	tl := verif_Choose("tamperedLen", 0, len(enc)+1)
	t := verif_Bytes("tampered", tl)
	verif_Assume(!bytes.Equal(t, enc))
	out, derr := DecryptValueKey(t, pass)
	verif_Reach("returned")
	verif_Assert(derr != nil && out == nil, "altered or truncated ciphertext is rejected")
}

// C12 (d): a value key splits back into the peer ID and context ID it was built from.
func VerifC12_ValueKeySplit() {
	var pidBytes []byte
	if verif_Choose("peerIDKind", 0, 1) == 0 {
		// identity-hashed key: code 0x00, length L, L digest bytes
		// (1..4 bytes, and the real sizes: 36 = ed25519, 37 = secp256k1 public keys)
		l := []int{1, 2, 3, 4, 36, 37}[verif_Choose("identityLen", 0, 5)]
		pidBytes = append([]byte{0x00, byte(l)}, verif_Bytes("digest", l)...)
	} else {
		// sha2-256: code 0x12, length 32
		pidBytes = append([]byte{0x12, 0x20}, verif_Bytes("digest", 32)...)
	}
	pid, err := peer.IDFromBytes(pidBytes)
	verif_Assume(err == nil)
	// context IDs of 0..3 bytes and up to the 64-byte maximum
	cl := []int{0, 1, 2, 3, 32, 59, 60, 61, 63, 64}[verif_Choose("ctxLen", 0, 9)]
	ctx := verif_Bytes("ctx", cl)
	vk := CreateValueKey(pid, ctx)
	verif_Assert(len(vk) == len(pidBytes)+cl, "value key is peer ID bytes followed by context ID")
	pid2, ctx2, serr := SplitValueKey(vk)
	verif_Reach("split")
	verif_Assert(serr == nil, "splitting a value key succeeds")
	verif_Assert(pid2 == pid, "split returns the peer ID")
	verif_Assert(bytes.Equal(ctx2, ctx), "split returns the context ID")
}

// C12 (e): the second hash is a deterministic dbl-sha2-256 multihash different from the input.
func VerifC12_SecondMultihash() {
	n := verif_Choose("mhLen", 2, 6)
	mh := multihash.Multihash(verif_Bytes("mh", n))
	if verif_Bool("originalIsItselfADoubleSha256Multihash") {
		// a content hash of the same kind as the second hash (a concrete one: its second
		// hash is then computed for real)
		var serr error
		mh, serr = multihash.Sum([]byte("some content"), multihash.DBL_SHA2_256, -1)
		verif_Assume(serr == nil)
	}
	h1 := SecondMultihash(mh)
	h2 := SecondMultihash(mh)
	verif_Reach("hashed")
	verif_Assert(bytes.Equal(h1, h2), "second hash is deterministic")
	verif_Assert(len(h1) == 34 && h1[0] == multihash.DBL_SHA2_256 && h1[1] == 32, "second hash is a dbl-sha2-256 multihash with a 32-byte digest")
	verif_Assert(!bytes.Equal(h1, mh), "second hash differs from the original")
	d, derr := multihash.Decode(h1)
	verif_Assert(derr == nil && d.Code == multihash.DBL_SHA2_256 && d.Length == 32, "second hash decodes as dbl-sha2-256")
}

// SplitValueKey on arbitrary bytes never panics.
func VerifC12_SplitTotal() {
	n := verif_Choose("len", 0, 6)
	in := verif_Bytes("valueKey", n)
	pid, ctx, err := SplitValueKey(in)
	verif_Reach("returned")
	if err == nil {
		verif_Assert(len(pid)+len(ctx) == n, "split partitions the input")
		verif_Assert(bytes.Equal(CreateValueKey(pid, ctx), in), "re-joining the parts gives the input")
	}
}

// C12 (b): encryption leaves its inputs untouched, so that encrypting the same
// inputs again gives identical bytes — also when the payload slice has spare
// capacity (as value keys built by CreateValueKey have).
func VerifC12_EncryptKeepsInputs() {
	n := verif_Choose("payloadLen", 0, 3)
	raw := verif_Bytes("payload", n)
	payload := append(make([]byte, 0, 64), raw...) // spare capacity behind the payload
	pass := verif_Bytes("pass", 2)
	meta := verif_Bool("metadataVariant")
	enc := func() ([]byte, error) {
		if meta {
			return EncryptMetadata(payload, pass)
		}
		return EncryptValueKey(payload, pass)
	}
	e1, err1 := enc()
	verif_Assert(bytes.Equal(payload, raw), "encryption does not modify the payload it was given")
	e2, err2 := enc()
	verif_Reach("encrypted twice")
	verif_Assert(err1 == nil && err2 == nil && bytes.Equal(e1, e2), "encrypting the same inputs twice gives identical bytes")
	// the ciphertext depends on the payload BYTES only, not on the slice that
	// holds them (capacity, position in a larger buffer)
	held := append(append(make([]byte, 0, 7+n), 0xee), raw...)[1:]
	payload = held
	e3, err3 := enc()
	verif_Assert(err3 == nil && bytes.Equal(e1, e3), "equal payload bytes encrypt to equal bytes whatever slice holds them")
	// the reader-privacy sequence: the value key is encrypted first, then used as
	// passphrase for the metadata
	pidBytes := []byte{0x00, 0x02, 0xaa, verif_U8("peerByte")}
	pid, perr := peer.IDFromBytes(pidBytes)
	verif_Assume(perr == nil)
	vk := CreateValueKey(pid, verif_Bytes("ctx", 1))
	vkCopy := append([]byte{}, vk...)
	_, verr := EncryptValueKey(vk, pass)
	verif_Assert(verr == nil && bytes.Equal(vk, vkCopy), "encrypting a value key leaves the value key intact")
	emd, merr := EncryptMetadata(raw, vk)
	dmd, derr := DecryptMetadata(emd, vkCopy)
	verif_Assert(merr == nil && derr == nil && bytes.Equal(dmd, raw), "metadata encrypted under the value key decrypts with the value key")
}

// C12 (wrong passphrase, long passphrases): value keys used as passphrases are
// peer ID + context ID, up to ~100 bytes. Two passphrases that differ only in
// their last bytes (beyond any internal buffer size) still derive different
// keys: decryption with the other one fails closed. Collision freedom of
// SHA-256 on the inputs of this run is the stated assumption (cfg).
func VerifC12_WrongPassphraseLong() {
	l := []int{31, 32, 33, 63, 64, 65, 66, 100}[verif_Choose("passLen", 0, 7)]
	common := make([]byte, l-1)
	for i := range common {
		common[i] = byte(i)
	}
	pass := append(append([]byte{}, common...), verif_U8("lastByte"))
	pass2 := append(append([]byte{}, common...), verif_U8("otherLastByte"))
	verif_Assume(!bytes.Equal(pass, pass2))
	payload := verif_Bytes("payload", 2)
	meta := verif_Bool("metadataVariant")
	var enc, dec, d2 []byte
	var err, derr, e2 error
	if meta {
		enc, err = EncryptMetadata(payload, pass)
		dec, derr = DecryptMetadata(enc, pass)
		d2, e2 = DecryptMetadata(enc, pass2)
	} else {
		enc, err = EncryptValueKey(payload, pass)
		dec, derr = DecryptValueKey(enc, pass)
		d2, e2 = DecryptValueKey(enc, pass2)
	}
	verif_Reach("decrypted")
	verif_Assert(err == nil && derr == nil && bytes.Equal(dec, payload), "round trip with a long passphrase")
	verif_Assert(e2 != nil && d2 == nil, "a passphrase differing only in its last byte fails closed, however long the passphrase")
}

// C12 (deterministic, also when several goroutines use the package at once —
// concurrent finds do): two goroutines hash and encrypt at the same time; each
// gets exactly what a sequential call gives. The happens-before race detector
// watches the package's own state (cfg "races").
func VerifC12_ConcurrentUse() {
	mhA, mhB := multihash.Multihash{0x12, 0x02, 0xaa, 0x01}, multihash.Multihash{0x12, 0x02, 0xbb, 0x02}
	payload := []byte{1, 2, 3}
	refA, refB := SecondMultihash(mhA), SecondMultihash(mhB)
	encA, errA := EncryptMetadata(payload, mhA)
	encB, errB := EncryptMetadata(payload, mhB)
	verif_Assume(errA == nil && errB == nil)
	type out struct {
		second multihash.Multihash
		enc    []byte
		dec    []byte
		err    error
	}
	run := func(mh multihash.Multihash, ch chan out) {
		var o out
		o.second = SecondMultihash(mh)
		o.enc, o.err = EncryptMetadata(payload, mh)
		if o.err == nil {
			o.dec, o.err = DecryptMetadata(o.enc, mh)
		}
		ch <- o
	}
	ca, cb := make(chan out, 1), make(chan out, 1)
	go run(mhA, ca)
	go run(mhB, cb)
	oa, ob := <-ca, <-cb
	verif_Reach("both done")
	verif_Assert(oa.err == nil && ob.err == nil, "encryption and decryption succeed under concurrent use")
	verif_Assert(bytes.Equal(oa.second, refA) && bytes.Equal(ob.second, refB), "the second hash is the same as in a sequential call")
	verif_Assert(bytes.Equal(oa.enc, encA) && bytes.Equal(ob.enc, encB), "encryption gives the same bytes as a sequential call")
	verif_Assert(bytes.Equal(oa.dec, payload) && bytes.Equal(ob.dec, payload), "decryption returns the payload")
}
