package announce

import (
	"context"

	"github.com/libp2p/go-libp2p/core/peer"
	"github.com/multiformats/go-multiaddr"
)

// C09 (address filtering clause): with IP filtering enabled a delivered
// announcement carries exactly the public addresses of the one that was
// announced — also when none is public (then it carries none); with filtering
// off the addresses are delivered unchanged. IPv4, IPv6, zoned IPv6 and DNS
// addresses go through the real manet predicates.
func VerifC09_FilterIPs() {
	filter := verif_Bool("filterIPs")
	rcv, err := NewReceiver(nil, "", WithFilterIPs(filter))
	verif_Assume(err == nil)
	n := verif_Choose("addrs", 0, 2)
	var addrs []multiaddr.Multiaddr
	var public []bool
	for i := 0; i < n; i++ {
		kind := verif_Choose("addrKind", 0, 7)
		var s string
		pub := false
		switch kind {
		case 0:
			s, pub = "/ip4/8.8.4.4/tcp/80", true
		case 1:
			s = "/ip4/10.0.0.5/tcp/80"
		case 2:
			s = "/ip4/127.0.0.1/tcp/80"
		case 3:
			s, pub = "/dns4/example.com/tcp/443/https", true
		case 4:
			s = "/ip6/::1/tcp/80"
		case 5:
			s, pub = "/ip6/2001:4860:4860::8888/tcp/80", true
		case 6:
			s = "/ip6zone/eth0/ip6/fe80::1/tcp/80" // zoned link-local address
		case 7:
			s = "/ip6zone/lo/ip6/::1/tcp/80"
		}
		a, aerr := multiaddr.NewMultiaddr(s)
		verif_Assume(aerr == nil)
		addrs = append(addrs, a)
		public = append(public, pub)
	}
	verif_Assume(rcv.Direct(context.Background(), c09cid(1), peer.AddrInfo{ID: "publisher-1", Addrs: addrs}) == nil)
	amsg, nerr := rcv.Next(context.Background())
	verif_Reach("delivered")
	verif_Assert(nerr == nil, "the announcement is delivered")
	var want []multiaddr.Multiaddr
	for i, a := range addrs {
		if !filter || public[i] {
			want = append(want, a)
		}
	}
	verif_Assert(len(amsg.Addrs) == len(want), "with filtering on exactly the public addresses are delivered (none if none is public); with filtering off all of them")
	for i := range want {
		if i < len(amsg.Addrs) {
			verif_Assert(amsg.Addrs[i].Equal(want[i]), "delivered addresses keep their order and value")
		}
	}
	verif_Assert(rcv.Close() == nil, "Close succeeds")
}
