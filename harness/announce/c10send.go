package announce

import (
	"bytes"
	"context"
	"errors"
	"io"
	"net/http"
	"net/url"

	"github.com/ipfs/go-cid"
	"github.com/ipni/go-libipni/announce/httpsender"
	"github.com/ipni/go-libipni/announce/message"
	"github.com/ipni/go-libipni/announce/p2psender"
	pubsub "github.com/libp2p/go-libp2p-pubsub"
	"github.com/libp2p/go-libp2p/core/peer"
	"github.com/multiformats/go-multiaddr"
)

type c10sendRT struct {
	status int
	body   []byte
	calls  int
}

func (r *c10sendRT) RoundTrip(req *http.Request) (*http.Response, error) {
	r.calls++
	b, _ := io.ReadAll(req.Body)
	r.body = b
	return &http.Response{StatusCode: r.status, Body: io.NopCloser(bytes.NewReader(nil)), Header: http.Header{}}, nil
}

// a sender that always fails
type c10failing struct{ calls int }

func (f *c10failing) Close() error { return nil }
func (f *c10failing) Send(context.Context, message.Message) error {
	f.calls++
	return errors.New("model: this sender is down")
}

// C10 (what the senders put on the wire is what a receiver decodes), through
// announce.Send over the library's two senders at once: the pubsub sender
// publishes a message that decodes to the announced CID, the addresses as given
// and the sender's extra data; the HTTP sender sends the same with the
// publisher's ID appended to each address; a nil sender is skipped; a failing
// sender's error is reported (whether the remaining senders are still tried is
// the library's choice and not asserted).
func VerifC10_SendToAllSenders() {
	pid, err := peer.IDFromBytes([]byte{0x00, 0x02, 0xaa, 0x01})
	verif_Assume(err == nil)
	c, cerr := cid.Cast([]byte{0x01, 0x55, 0x00, 0x01, verif_U8("cidDigest")})
	verif_Assume(cerr == nil)
	n := verif_Choose("addrs", 0, 2)
	var addrs []multiaddr.Multiaddr
	for i := 0; i < n; i++ {
		a, aerr := multiaddr.NewMultiaddrBytes([]byte{0x04, 10, 0, 0, byte(1 + i), 0x06, 0x1f, 0x90})
		verif_Assume(aerr == nil)
		addrs = append(addrs, a)
	}
	topic := &pubsub.Topic{}
	var popts []p2psender.Option
	popts = append(popts, p2psender.WithTopic(topic))
	var extra []byte
	if verif_Bool("pubsubSenderHasExtraData") {
		extra = []byte{0xe1, 0xe2}
		popts = append(popts, p2psender.WithExtraData(extra))
	}
	ps, perr := p2psender.New(nil, "", popts...)
	verif_Assert(perr == nil && ps != nil, "a pubsub sender over a given topic is created")
	rt := &c10sendRT{status: http.StatusOK}
	u, uerr := url.Parse("http://indexer.example")
	verif_Assume(uerr == nil)
	hs, herr := httpsender.New([]*url.URL{u}, pid, httpsender.WithClient(&http.Client{Transport: rt}))
	verif_Assert(herr == nil && hs != nil, "an HTTP sender is created")
	if ps == nil || hs == nil {
		return
	}
	bad := &c10failing{}
	var senders []Sender
	failing := verif_Choose("failingSenderPosition", 0, 3) // 3: none
	for i, s := range []Sender{ps, nil, hs} {
		if i == failing {
			senders = append(senders, bad)
		}
		senders = append(senders, s)
	}
	serr := Send(context.Background(), c, addrs, senders...)
	verif_Reach("sent")
	if failing < 3 {
		verif_Assert(serr != nil && bad.calls == 1, "a failing sender's error is reported")
	} else {
		verif_Assert(serr == nil, "sending succeeds when every sender does")
	}
	pub := verif_PubsubPublished(topic)
	if failing == 3 {
		verif_Assert(len(pub) == 1, "the pubsub sender published once")
	} else {
		verif_Assert(len(pub) <= 1, "the pubsub sender published at most once")
	}
	if len(pub) == 1 {
		var m message.Message
		verif_Assert(m.UnmarshalCBOR(bytes.NewReader(pub[0])) == nil, "what was published decodes")
		verif_Assert(m.Cid == c && m.OrigPeer == "" && bytes.Equal(m.ExtraData, extra), "to the announced CID and the sender's extra data")
		got, gerr := m.GetAddrs()
		verif_Assert(gerr == nil && len(got) == n, "with the addresses as given")
		for i := range got {
			if i < n {
				verif_Assert(got[i].Equal(addrs[i]), "unchanged and in order")
			}
		}
	}
	if failing == 3 {
		verif_Assert(rt.calls == 1, "the HTTP sender sent once")
	} else {
		verif_Assert(rt.calls <= 1, "the HTTP sender sent at most once")
	}
	if rt.calls == 1 {
		var m message.Message
		verif_Assert(m.UnmarshalCBOR(bytes.NewReader(rt.body)) == nil, "what was sent over HTTP decodes")
		verif_Assert(m.Cid == c, "to the announced CID")
		got, gerr := m.GetAddrs()
		if n == 0 {
			verif_Assert(gerr == nil && len(got) <= 1, "without addresses at most the publisher's ID travels")
		} else {
			verif_Assert(gerr == nil && len(got) == n, "with as many addresses as given")
			for i := range got {
				if i < n {
					tr, id := peer.SplitAddr(got[i])
					verif_Assert(id == pid && tr != nil && tr.Equal(addrs[i]), "each carrying the publisher's ID")
				}
			}
		}
	}
	if failing == 3 && len(pub) == 1 {
		// a second announcement through the same senders: what was published before
		// is not rewritten (pubsub keeps the published bytes; they are still queued)
		first := append([]byte{}, pub[0]...)
		c2, c2err := cid.Cast([]byte{0x01, 0x55, 0x00, 0x01, 0x5c})
		verif_Assume(c2err == nil)
		verif_Assert(Send(context.Background(), c2, nil, senders...) == nil, "the second announcement is sent")
		pub2 := verif_PubsubPublished(topic)
		verif_Assert(len(pub2) == 2, "and published")
		if len(pub2) == 2 {
			verif_Assert(bytes.Equal(pub2[0], first), "a later announcement does not change the bytes of an earlier one")
			var m2 message.Message
			verif_Assert(m2.UnmarshalCBOR(bytes.NewReader(pub2[1])) == nil && m2.Cid == c2, "the second message decodes to the second CID")
		}
		pub = pub2
	}
	// nothing to announce, or nobody to announce to
	verif_Assert(Send(context.Background(), cid.Undef, addrs, ps) == nil && Send(context.Background(), c, addrs) == nil, "nothing to announce or no sender: nothing happens")
	verif_Assert(len(verif_PubsubPublished(topic)) == len(pub), "and nothing is published")
	verif_Assert(ps.Close() == nil && hs.Close() == nil, "the senders close")
}
