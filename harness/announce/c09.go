package announce

import (
	"context"

	"github.com/ipfs/go-cid"
	"github.com/libp2p/go-libp2p/core/peer"
)

// abstraction of the real LRU structure: keys from most to least recent
func c09abs(l *stringLRU) []string {
	var out []string
	for e := l.ll.Front(); e != nil; e = e.Next() {
		out = append(out, e.Value.(string))
	}
	return out
}

func c09wellFormed(l *stringLRU) bool {
	if len(l.cache) != l.ll.Len() || l.ll.Len() > l.max {
		return false
	}
	for e := l.ll.Front(); e != nil; e = e.Next() {
		k := e.Value.(string)
		if l.cache[k] != e {
			return false
		}
	}
	return true
}

// C09 (a): one inductive step of the LRU from an arbitrary well-formed state:
// the real list+map refine the specification sequence.
func VerifC09_LRUStep() {
	capN := verif_Choose("capacity", 1, 3)
	m := verif_Choose("entries", 0, capN)
	l := newStringLRU(capN)
	// arbitrary pre-state: m distinct symbolic 1-byte keys, most recent first
	keys := make([]string, m)
	for i := m - 1; i >= 0; i-- {
		keys[i] = verif_Str("key", 1)
	}
	for i := 0; i < m; i++ {
		for j := 0; j < i; j++ {
			verif_Assume(keys[i] != keys[j])
		}
	}
	for i := m - 1; i >= 0; i-- {
		verif_Assume(!l.update(keys[i]))
	}
	verif_Assert(c09wellFormed(l), "pre-state is well formed")
	pre := c09abs(l)
	verif_Assert(len(pre) == m, "pre-state holds the keys")
	for i := range pre {
		verif_Assert(pre[i] == keys[i], "pre-state order is most recent first")
	}

	s := verif_Str("arg", 1)
	at := -1
	for i, k := range pre {
		if k == s {
			at = i
		}
	}
	var want []string
	if verif_Bool("opIsUpdate") {
		hit := l.update(s)
		verif_Reach("updated")
		verif_Assert(hit == (at >= 0), "update reports a hit exactly for keys already present")
		want = append(want, s)
		for i, k := range pre {
			if i == at {
				continue
			}
			want = append(want, k)
		}
		if at < 0 && len(pre) == capN {
			want = want[:capN] // the least recently used key is dropped
		}
	} else {
		hit := l.remove(s)
		verif_Reach("removed")
		verif_Assert(hit == (at >= 0), "remove reports whether the key was present")
		for i, k := range pre {
			if i != at {
				want = append(want, k)
			}
		}
	}
	verif_Assert(c09wellFormed(l), "map and list agree after the operation and the size bound holds")
	post := c09abs(l)
	verif_Assert(len(post) == len(want), "post-state has the specified keys")
	if len(post) == len(want) {
		for i := range want {
			verif_Assert(post[i] == want[i], "post-state order: touched key first, others in previous order, oldest evicted")
		}
	}
}

func c09cid(b byte) cid.Cid {
	c, err := cid.Cast([]byte{0x01, 0x55, 0x00, 0x01, b})
	verif_Assume(err == nil)
	return c
}

// the CID alphabet of the receiver histories: 1 and 2 differ in their digest; 3
// has the digest of 1 but the dag-cbor codec, so it is a different CID
func c09hcid(k byte) cid.Cid {
	if k == 3 {
		c, err := cid.Cast([]byte{0x01, 0x71, 0x00, 0x01, 1})
		verif_Assume(err == nil)
		return c
	}
	return c09cid(k)
}

// C09 (c)-(d), (f): bounded histories of direct announcements and un-cache
// operations against the specification
//
//	delivered <=> allowed(peer) && !recentlySeen(cid)
//
// with rejected announcements leaving the duplicate filter untouched.
func VerifC09_ReceiverHistory() {
	allowA := verif_Bool("allowPeerA")
	allowB := verif_Bool("allowPeerB")
	r, err := NewReceiver(nil, "", WithAllowPeer(func(p peer.ID) bool {
		if p == "A" {
			return allowA
		}
		return allowB
	}))
	verif_Assume(err == nil)
	verif_Assert(r.announceCache.max == 64, "the duplicate filter holds the 64 most recent CIDs")
	seen := map[byte]bool{} // specification of the duplicate filter (no eviction within this bound)
	n := verif_Choose("operations", 1, 3+verif_Tier())
	for i := 0; i < n; i++ {
		c := byte(verif_Choose("cid", 1, 3)) // (3: the multihash of 1 under another codec — a different CID)
		if verif_Bool("uncache") {
			r.UncacheCid(c09hcid(c))
			delete(seen, c)
			continue
		}
		p := peer.ID("A")
		allowed := allowA
		if verif_Bool("fromPeerB") {
			p, allowed = "B", allowB
		}
		derr := r.Direct(context.Background(), c09hcid(c), peer.AddrInfo{ID: p})
		verif_Reach("announced")
		verif_Assert(derr == nil, "a direct announcement on an open receiver returns nil")
		expectDelivery := allowed && !seen[c]
		if allowed {
			seen[c] = true
		}
		select {
		case a := <-r.outChan:
			verif_Reach("delivered")
			verif_Assert(expectDelivery, "an announcement is delivered only if its peer is allowed and its CID was not recently seen")
			verif_Assert(a.Cid == c09hcid(c) && a.PeerID == p, "a delivered announcement carries the announced CID and publisher unchanged")
		default:
			verif_Assert(!expectDelivery, "an allowed announcement of an unseen (or un-cached) CID is delivered")
		}
	}
}

// C09 (an accepted announcement is delivered): a consumer whose context has
// already ended asks for the next announcement while an accepted one is queued.
// Whatever that call returns — the announcement, or the context's error — the
// announcement is not lost: if the call returned an error, the next call with a
// live context gets it.
func VerifC09_CancelledNextLosesNothing() {
	r, err := NewReceiver(nil, "")
	verif_Assume(err == nil)
	verif_Assert(r.Direct(context.Background(), c09cid(1), peer.AddrInfo{ID: "A"}) == nil, "the announcement is accepted")
	ctx, cancel := context.WithCancel(context.Background())
	cancel()
	a, nerr := r.Next(ctx)
	verif_Reach("first Next returned")
	if nerr == nil {
		verif_Assert(a.Cid == c09cid(1) && a.PeerID == "A", "the queued announcement is delivered")
		return
	}
	b, berr := r.Next(context.Background()) // (an announcement that was swallowed is reported as a hang)
	verif_Assert(berr == nil && b.Cid == c09cid(1) && b.PeerID == "A", "an accepted announcement is delivered to the next consumer that asks")
}
