package announce

import (
	"context"

	"github.com/libp2p/go-libp2p/core/peer"
)

// C16 (a)+(b): sequential histories over Close, Direct, Next and UncacheCid.
// Every call must complete (a call that can never complete is reported as a
// hang), Close is idempotent, and after Close waiters and allowed direct
// announcements get ErrClosed. Calls that would legitimately wait for a
// consumer/producer (open receiver, live context) are not issued.
func VerifC16_Histories() {
	allow := verif_Bool("peerAllowed")
	r, err := NewReceiver(nil, "", WithAllowPeer(func(peer.ID) bool { return allow }))
	verif_Assume(err == nil)
	closed := false
	queued := 0
	nextCid := byte(1)
	n := verif_Choose("operations", 1, 4+verif_Tier())
	for i := 0; i < n; i++ {
		op := verif_Choose("op", 0, 3)
		live := context.Background()
		cctx, cancel := context.WithCancel(context.Background())
		cancel()
		useCancelled := verif_Bool("contextCancelled")
		ctx := live
		if useCancelled {
			ctx = cctx
		}
		switch op {
		case 0: // Close
			cerr := r.Close()
			verif_Reach("closed")
			verif_Assert(cerr == nil, "Close returns nil, also when repeated")
			closed = true
		case 1: // Direct with a fresh CID
			if !closed && queued == 1 && !useCancelled && allow {
				continue // would legitimately wait for a consumer
			}
			derr := r.Direct(ctx, c09cid(nextCid), peer.AddrInfo{ID: "P"})
			nextCid++
			verif_Reach("direct returned")
			switch {
			case !allow:
				verif_Assert(derr == nil, "a disallowed announcement is dropped without error")
			case closed:
				verif_Assert(derr == ErrClosed || (useCancelled && derr != nil), "a direct announcement after Close returns the closed error")
			case derr == nil:
				queued++
				verif_Assert(queued == 1, "at most one announcement is queued")
			default:
				verif_Assert(useCancelled, "an open receiver fails a direct announcement only for a cancelled context")
			}
		case 2: // Next
			if !closed && queued == 0 && !useCancelled {
				continue // would legitimately wait for an announcement
			}
			_, nerr := r.Next(ctx)
			verif_Reach("next returned")
			if nerr == nil {
				verif_Assert(queued == 1, "Next yields only a queued announcement")
				queued--
			} else if closed && queued == 0 && !useCancelled {
				verif_Assert(nerr == ErrClosed, "Next on a closed, empty receiver returns the closed error")
			}
		case 3: // UncacheCid
			r.UncacheCid(c09cid(1))
			verif_Reach("uncached")
		}
	}
}
