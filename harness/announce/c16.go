package announce

import (
	"context"

	"github.com/libp2p/go-libp2p/core/peer"
)

// C16 (a)+(b): sequential histories over Close, Direct, Next and UncacheCid.
// Every call must complete (a call that can never complete is reported as a
// hang), Close is idempotent, and after Close waiters and allowed direct
// announcements get ErrClosed. Calls that would legitimately wait for a
// consumer/producer (open receiver, live context) are not issued.
func VerifC16_Histories() {
	allow := verif_Bool("peerAllowed")
	r, err := NewReceiver(nil, "", WithAllowPeer(func(peer.ID) bool { return allow }))
	verif_Assume(err == nil)
	closed := false
	queued := 0
	nextCid := byte(1)
	seen := map[byte]bool{} // CIDs in the duplicate filter
	n := verif_Choose("operations", 1, 4+verif_Tier())
	for i := 0; i < n; i++ {
		op := verif_Choose("op", 0, 3)
		live := context.Background()
		cctx, cancel := context.WithCancel(context.Background())
		cancel()
		useCancelled := verif_Bool("contextCancelled")
		ctx := live
		if useCancelled {
			ctx = cctx
		}
		switch op {
		case 0: // Close
			cerr := r.Close()
			verif_Reach("closed")
			verif_Assert(cerr == nil, "Close returns nil, also when repeated")
			closed = true
		case 1: // Direct with a fresh CID, or repeating the previous one
			repeat := nextCid > 1 && verif_Bool("repeatPreviousCid")
			c := nextCid
			if repeat {
				c = nextCid - 1
			} else {
				nextCid++
			}
			dup := seen[c]
			if !dup && !closed && queued == 1 && !useCancelled && allow {
				continue // would legitimately wait for a consumer
			}
			derr := r.Direct(ctx, c09cid(c), peer.AddrInfo{ID: "P"})
			if allow && !closed {
				seen[c] = true
			}
			if dup && !closed && allow {
				verif_Assert(derr == nil, "a duplicate announcement on an open receiver is dropped without error")
				continue
			}
			verif_Reach("direct returned")
			switch {
			case !allow:
				verif_Assert(derr == nil, "a disallowed announcement is dropped without error")
			case closed:
				verif_Assert(derr == ErrClosed || (useCancelled && derr != nil), "a direct announcement after Close returns the closed error")
			case derr == nil:
				queued++
				verif_Assert(queued == 1, "at most one announcement is queued")
			default:
				verif_Assert(useCancelled, "an open receiver fails a direct announcement only for a cancelled context")
			}
		case 2: // Next
			if !closed && queued == 0 && !useCancelled {
				continue // would legitimately wait for an announcement
			}
			_, nerr := r.Next(ctx)
			verif_Reach("next returned")
			if nerr == nil {
				verif_Assert(queued == 1, "Next yields only a queued announcement")
				queued--
			} else if closed && queued == 0 && !useCancelled {
				verif_Assert(nerr == ErrClosed, "Next on a closed, empty receiver returns the closed error")
			}
		case 3: // UncacheCid
			r.UncacheCid(c09cid(1))
			delete(seen, 1)
			verif_Reach("uncached")
		}
	}
}

// C16 (c): Close racing with a direct announcement, a waiting consumer and an
// un-cache call: every call returns (a call that can never return is a hang),
// waiters get the closed error or a queued announcement, Close is idempotent.
func VerifC16_Races() {
	r, err := NewReceiver(nil, "")
	verif_Assume(err == nil)
	nextDone := make(chan error, 1)
	go func() { // a consumer waiting for the next announcement
		_, nerr := r.Next(context.Background())
		nextDone <- nerr
	}()
	directDone := make(chan error, 2)
	go func() { // two direct announcements: the second may have to wait for the consumer
		directDone <- r.Direct(context.Background(), c09cid(1), peer.AddrInfo{ID: "P"})
		directDone <- r.Direct(context.Background(), c09cid(2), peer.AddrInfo{ID: "P"})
	}()
	go func() { r.UncacheCid(c09cid(1)) }()
	closers := 1 + verif_Choose("extraCloser", 0, 1)
	closed := make(chan error, closers)
	for i := 0; i < closers; i++ {
		go func() { closed <- r.Close() }()
	}
	for i := 0; i < closers; i++ {
		verif_Assert(<-closed == nil, "Close returns nil for every caller")
	}
	nerr := <-nextDone
	verif_Assert(nerr == nil || nerr == ErrClosed, "a waiting consumer gets an announcement or the closed error")
	for i := 0; i < 2; i++ {
		derr := <-directDone
		verif_Assert(derr == nil || derr == ErrClosed, "a direct announcement racing with Close succeeds or returns the closed error")
	}
	verif_Reach("all returned")
	// later calls
	verif_Assert(r.Direct(context.Background(), c09cid(3), peer.AddrInfo{ID: "P"}) == ErrClosed, "later direct announcements get the closed error")
	r.UncacheCid(c09cid(2))
	verif_Assert(r.Close() == nil, "Close can be repeated")
	_, lerr := r.Next(context.Background())
	verif_Assert(lerr == ErrClosed || lerr == nil, "later consumers return promptly")
	verif_Quiesce()
	verif_Assert(verif_LiveThreads() <= 0, "no goroutine is left behind")
}
