package announce

import (
	"bytes"
	"context"
	"github.com/multiformats/go-multiaddr"

	"github.com/ipni/go-libipni/announce/message"
	pubsub "github.com/libp2p/go-libp2p-pubsub"
	"github.com/libp2p/go-libp2p/core/host"
	"github.com/libp2p/go-libp2p/core/peer"
)

type c09host struct {
	host.Host
	id peer.ID
}

func (h c09host) ID() peer.ID { return h.id }

func c09pid(b byte) peer.ID { return peer.ID([]byte{0x00, 0x01, b}) }

func c09wire(m message.Message) []byte {
	var buf bytes.Buffer
	verif_Assume(m.MarshalCBOR(&buf) == nil)
	return buf.Bytes()
}

// C09 (e): the pubsub path. A message is attributed to its sender, or to the
// original publisher when it is a republication; the receiver ignores its own
// republications; an undecodable original peer drops the message; a direct
// announcement with resend is republished carrying the original publisher.
// (Symbolic run only: the pubsub topic is an engine model.)
func VerifC09_PubsubPath() {
	self, sender, orig := c09pid(0x5e), c09pid(0xaa), c09pid(0xbb)
	allowOrig := verif_Bool("origAllowed")
	// the relaying sender need not be on the allow list itself
	allowSender := verif_Bool("senderAllowed")
	topic := &pubsub.Topic{}
	r, err := NewReceiver(c09host{id: self}, "", WithTopic(topic), WithResend(true), WithAllowPeer(func(p peer.ID) bool {
		if p == sender {
			return allowSender
		}
		return p != orig || allowOrig
	}))
	verif_Assume(err == nil)
	from := sender
	if verif_Bool("sentBySelf") {
		from = self
	}
	m := message.Message{Cid: c09cid(7)}
	if verif_Bool("firstMessageHasAddressesAndExtraData") {
		a1, aerr := multiaddr.NewMultiaddr("/ip4/8.8.4.4/tcp/80")
		verif_Assume(aerr == nil)
		m.SetAddrs([]multiaddr.Multiaddr{a1})
		m.ExtraData = []byte{0xee}
	}
	kind := verif_Choose("origPeerField", 0, 2)
	switch kind {
	case 1:
		m.OrigPeer = orig.String()
	case 2:
		m.OrigPeer = "not-a-peer-id"
	}
	verif_PubsubDeliver(r.topicSub, []byte(from), c09wire(m))
	verif_Quiesce()
	verif_Reach("watcher handled the message")
	var got *Announce
	select {
	case a := <-r.outChan:
		got = &a
	default:
	}
	switch {
	case kind == 0 && from == sender && !allowSender:
		verif_Assert(got == nil, "the allow filter is applied to the sender of a message that is not a republication")
	case kind == 0:
		verif_Assert(got != nil && got.PeerID == from && got.Cid == c09cid(7), "a pubsub announcement is delivered with its sender as publisher and its CID unchanged")
	case kind == 1 && from == self:
		verif_Assert(got == nil, "the receiver ignores its own republications")
	case kind == 1:
		if allowOrig {
			verif_Assert(got != nil && got.PeerID == orig && got.Cid == c09cid(7), "a republished message is attributed to its original publisher, and the allow filter judges that publisher, not the relay")
		} else {
			verif_Assert(got == nil, "the allow filter is applied to the original publisher of a republished message")
		}
	case kind == 2 && from != self:
		verif_Assert(got == nil, "a republished message whose original peer cannot be read is dropped")
	}
	third := c09pid(0xcc)
	// the next message is an ordinary one without addresses, from another sender:
	// nothing of the previous message sticks to it
	verif_PubsubDeliver(r.topicSub, []byte(third), c09wire(message.Message{Cid: c09cid(17)}))
	verif_Quiesce()
	select {
	case a := <-r.outChan:
		verif_Assert(a.PeerID == third && a.Cid == c09cid(17), "the next pubsub message is attributed to its own sender")
		verif_Assert(len(a.Addrs) == 0, "and carries its own (no) addresses, not those of the message before")
	default:
		verif_Assert(false, "an allowed, unseen pubsub announcement is delivered whatever was received before")
	}
	// a direct announcement is republished with the original publisher recorded
	before := len(verif_PubsubPublished(topic))
	derr := r.Direct(context.Background(), c09cid(8), peer.AddrInfo{ID: third})
	verif_Assert(derr == nil, "direct announcement accepted")
	pub := verif_PubsubPublished(topic)
	verif_Assert(len(pub) == before+1, "a direct announcement is republished once")
	if len(pub) == before+1 {
		var rm message.Message
		verif_Assert(rm.UnmarshalCBOR(bytes.NewReader(pub[before])) == nil && rm.Cid == c09cid(8) && rm.OrigPeer == third.String(), "the republished message carries the CID and the original publisher")
	}
	// republishing is best effort: when it fails the announcement is delivered all the same
	verif_PubsubPublishFails(true)
	for len(r.outChan) > 0 {
		<-r.outChan
	}
	derr = r.Direct(context.Background(), c09cid(9), peer.AddrInfo{ID: third})
	verif_Assert(derr == nil, "a direct announcement whose republication fails is still accepted")
	select {
	case a := <-r.outChan:
		verif_Assert(a.Cid == c09cid(9) && a.PeerID == third, "and delivered")
	default:
		verif_Assert(false, "an allowed, unseen announcement is delivered even if it cannot be republished")
	}
	verif_PubsubPublishFails(false)
	verif_Assert(r.Close() == nil, "Close succeeds")
	verif_Quiesce()
	verif_Assert(verif_LiveThreads() <= 0, "the pubsub watcher goroutine exits on Close")
}

// C16 with a pubsub topic: Close racing with a message the watcher is handling.
func VerifC16_CloseWithWatcher() {
	self, sender := c09pid(0x5e), c09pid(0xaa)
	topic := &pubsub.Topic{}
	r, err := NewReceiver(c09host{id: self}, "", WithTopic(topic))
	verif_Assume(err == nil)
	n := verif_Choose("messages", 1, 2)
	for i := 0; i < n; i++ {
		verif_PubsubDeliver(r.topicSub, []byte(sender), c09wire(message.Message{Cid: c09cid(byte(20 + i))}))
	}
	closed := make(chan error, 1)
	go func() { closed <- r.Close() }()
	if verif_Bool("consumerWaiting") {
		_, _ = r.Next(context.Background())
	}
	verif_Assert(<-closed == nil, "Close returns while the watcher is handling a message")
	verif_Reach("closed")
	r.UncacheCid(c09cid(20))
	verif_Assert(r.Direct(context.Background(), c09cid(30), peer.AddrInfo{ID: sender}) == ErrClosed, "later direct announcements get the closed error")
	verif_Assert(r.Close() == nil, "Close can be repeated")
	verif_Quiesce()
	verif_Assert(verif_LiveThreads() <= 0, "the pubsub watcher goroutine exits")
}

// C16 with an externally owned topic whose pubsub has already been stopped by
// its owner (Subscription.Cancel is then a silent no-op, as in the library):
// Close still returns and the watcher exits — it is the watch context's
// cancellation that must end the watcher, not the subscription.
func VerifC16_CloseAfterPubsubStopped() {
	self, sender := c09pid(0x5e), c09pid(0xaa)
	topic := &pubsub.Topic{}
	r, err := NewReceiver(c09host{id: self}, "", WithTopic(topic))
	verif_Assume(err == nil)
	if verif_Bool("messageBeforeStop") {
		verif_PubsubDeliver(r.topicSub, []byte(sender), c09wire(message.Message{Cid: c09cid(21)}))
		_, _ = r.Next(context.Background())
	}
	verif_Quiesce()
	verif_PubsubStopped(true)
	verif_Assert(r.Close() == nil, "Close returns although the subscription can no longer be cancelled")
	verif_Reach("closed")
	verif_Assert(r.Close() == nil, "Close can be repeated")
	verif_Quiesce()
	verif_Assert(verif_LiveThreads() <= 0, "the pubsub watcher goroutine exits")
}

// C16 / C09 (with a libp2p host but WITHOUT a pubsub topic — announcements
// arrive only directly, e.g. over HTTP, while the process has a host for other
// purposes): the receiver works like one without pubsub; nothing panics, Close
// returns, waiters are released.
func VerifC16_HostWithoutTopic() {
	self, sender := c09pid(0x5e), c09pid(0xaa)
	r, err := NewReceiver(c09host{id: self}, "")
	verif_Assert(err == nil && r != nil, "a receiver with a host and no topic is created")
	if r == nil {
		return
	}
	verif_Quiesce() // whatever background goroutine the receiver starts has run
	verif_Reach("settled")
	verif_Assert(r.Direct(context.Background(), c09cid(31), peer.AddrInfo{ID: sender}) == nil, "a direct announcement is accepted")
	a, nerr := r.Next(context.Background())
	verif_Assert(nerr == nil && a.Cid == c09cid(31) && a.PeerID == sender, "and delivered")
	verif_Assert(r.Close() == nil, "Close succeeds")
	_, nerr = r.Next(context.Background())
	verif_Assert(nerr == ErrClosed, "Next after Close returns the closed error")
	verif_Assert(r.Close() == nil, "Close can be repeated")
	verif_Quiesce()
	verif_Assert(verif_LiveThreads() <= 0, "no goroutine of the receiver remains")
}

// C16 (with a pubsub topic handed in by the caller but WITHOUT a libp2p host —
// an unusual but valid combination): no watcher can run, announcements arrive
// directly; Close returns (once and again), waiters are released.
func VerifC16_TopicWithoutHost() {
	sender := c09pid(0xaa)
	topic := &pubsub.Topic{}
	r, err := NewReceiver(nil, "", WithTopic(topic))
	if err != nil || r == nil {
		// refusing the combination is acceptable; accepting it and hanging is not
		return
	}
	verif_Quiesce()
	verif_Reach("settled")
	verif_Assert(r.Direct(context.Background(), c09cid(41), peer.AddrInfo{ID: sender}) == nil, "a direct announcement is accepted")
	a, nerr := r.Next(context.Background())
	verif_Assert(nerr == nil && a.Cid == c09cid(41) && a.PeerID == sender, "and delivered")
	_ = r.Close() // (a Close that never returns is reported as a hang)
	verif_Reach("closed")
	_ = r.Close()
	_, nerr = r.Next(context.Background())
	verif_Assert(nerr != nil, "Next after Close returns the closed error")
	verif_Quiesce()
	verif_Assert(verif_LiveThreads() <= 0, "no goroutine of the receiver remains")
}
