package metadata

import (
	"bytes"
	"errors"
	"io"

	"github.com/ipfs/go-cid"
	"github.com/multiformats/go-multicodec"
	"github.com/multiformats/go-varint"
)

// C11 (c)+(d): decoding arbitrary bytes is total, allocation-bounded, and an
// accepted input re-encodes to exactly the bytes consumed.
func VerifC11_DecodeTotal() {
	maxN := 6
	if verif_Tier() == 1 {
		maxN = 8
	}
	n := verif_Choose("len", 0, maxN)
	in := verif_Bytes("in", n)
	// bound proportional to the input plus the declared size limit
	verif_AllocCap(4*n + MaxMetadataSize + 64)
	md := Default.New()
	err := md.UnmarshalBinary(in)
	verif_Reach("decoded")
	if err == nil {
		verif_Reach("accepted")
		out, merr := md.MarshalBinary()
		verif_Assert(merr == nil, "accepted metadata re-encodes without error")
		verif_Assert(bytes.Equal(out, in), "accepted metadata re-encodes to the bytes consumed")
	}
}

// c11representativeCodes: unknown protocols take one of the representative codes
// in every tier (harnesses whose subject is not the code)
var c11representativeCodes bool

type c11proto struct {
	p   Protocol
	enc []byte
}

func c11mkProto(i int) c11proto {
	kind := verif_Choose("kind", 0, 3)
	switch kind {
	case 0:
		return c11proto{&Bitswap{}, varint.ToUvarint(uint64(multicodec.TransportBitswap))}
	case 1:
		e := append(varint.ToUvarint(uint64(multicodec.TransportIpfsGatewayHttp)), varint.ToUvarint(0)...)
		return c11proto{&IpfsGatewayHttp{}, e}
	case 2:
		// a fixed valid piece CID (CIDv1, raw, identity multihash of one byte)
		pc, cerr := cid.Cast([]byte{0x01, 0x55, 0x00, 0x01, 0xaa})
		verif_Assume(cerr == nil)
		g := &GraphsyncFilecoinV1{PieceCID: pc, VerifiedDeal: verif_Bool("verified"), FastRetrieval: verif_Bool("fast")}
		e, err := g.MarshalBinary()
		verif_Assert(err == nil, "graphsync member encodes")
		return c11proto{g, e}
	}
	var code uint64
	if verif_Tier() == 0 || c11representativeCodes || verif_Choose("codeMode", 0, 1) == 0 {
		// representative unknown codes: below, between and above the known IDs
		code = []uint64{0x01, 0x0905, 0x0915, 0x3001}[verif_Choose("codeIdx", 0, 3)]
	} else {
		code = uint64(verif_U16("code") & 0x3fff)
		verif_Assume(code != uint64(multicodec.TransportBitswap) && code != uint64(multicodec.TransportGraphsyncFilecoinv1) && code != uint64(multicodec.TransportIpfsGatewayHttp))
	}
	pl := verif_Choose("payloadLen", 0, 2)
	data := verif_Bytes("payload", pl)
	e := append(varint.ToUvarint(code), varint.ToUvarint(uint64(pl))...)
	e = append(e, data...)
	return c11proto{&Unknown{Code: multicodec.Code(code), Payload: e}, e}
}

// C11 (a)+(b): canonical encoding and round trip for any protocol collection.
func VerifC11_RoundTrip() {
	k := verif_Choose("count", 1, 3)
	ps := make([]c11proto, k)
	list := make([]Protocol, k)
	for i := 0; i < k; i++ {
		ps[i] = c11mkProto(i)
		list[i] = ps[i].p
	}
	// specification: stable insertion sort by ID of the members' encodings
	idx := make([]int, k)
	for i := range idx {
		idx[i] = i
	}
	distinct := true
	for i := 1; i < k; i++ {
		for j := i; j > 0 && ps[idx[j]].p.ID() < ps[idx[j-1]].p.ID(); j-- {
			idx[j], idx[j-1] = idx[j-1], idx[j]
		}
	}
	for i := 1; i < k; i++ {
		if ps[idx[i]].p.ID() == ps[idx[i-1]].p.ID() {
			distinct = false
		}
	}
	var want []byte
	for _, i := range idx {
		want = append(want, ps[i].enc...)
	}

	md := Default.New(list...)
	enc, err := md.MarshalBinary()
	verif_Reach("encoded")
	verif_Assert(err == nil, "encoding succeeds")
	verif_Assert(len(enc) == len(want), "encoding is the concatenation of the member encodings (length)")
	if distinct {
		verif_Assert(bytes.Equal(enc, want), "encoding is the concatenation of member encodings in ascending ID order")
	}

	md2 := Default.New()
	derr := md2.UnmarshalBinary(enc)
	verif_Assert(derr == nil, "own encoding decodes")
	if derr != nil {
		return
	}
	verif_Reach("decoded")
	verif_Assert(md.Equal(md2), "decoded metadata equals the original")
	for i := 0; i < k; i++ {
		verif_Assert(md2.Get(ps[i].p.ID()) != nil, "every protocol retrievable by ID after decoding")
	}
}

// C11 (an encoding, once returned, is a value): encoding one metadata value and
// then another leaves the first encoding's bytes as they were (no encoding
// shares memory with package state or with a later encoding), and encoding the
// same value again gives the same bytes.
func VerifC11_EncodingsIndependent() {
	c11representativeCodes = true
	defer func() { c11representativeCodes = false }()
	mk := func() Metadata {
		k := verif_Choose("count", 1, 2)
		list := make([]Protocol, k)
		for i := 0; i < k; i++ {
			list[i] = c11mkProto(i).p
		}
		return Default.New(list...)
	}
	a, b := mk(), mk()
	encA, err := a.MarshalBinary()
	verif_Assume(err == nil)
	keep := append([]byte{}, encA...)
	encB, err := b.MarshalBinary()
	verif_Assume(err == nil)
	verif_Reach("both encoded")
	verif_Assert(bytes.Equal(encA, keep), "an encoding is not changed by a later encoding of another value")
	again, err := a.MarshalBinary()
	verif_Assert(err == nil && bytes.Equal(again, keep), "encoding the same value again gives the same bytes")
	againB, err := b.MarshalBinary()
	verif_Assert(err == nil && bytes.Equal(againB, encB), "and so for the second value")
}

// c11app: an application-specific protocol (one flag byte after its code) that
// some component registers in a context of its own
type c11app struct {
	code multicodec.Code
	on   bool
}

func (p *c11app) ID() multicodec.Code { return p.code }
func (p *c11app) MarshalBinary() ([]byte, error) {
	b := varint.ToUvarint(uint64(p.code))
	if p.on {
		return append(b, 1), nil
	}
	return append(b, 0), nil
}
func (p *c11app) UnmarshalBinary(d []byte) error {
	if len(d) == 0 || d[len(d)-1] > 1 {
		return errors.New("c11app: malformed")
	}
	p.on = d[len(d)-1] == 1
	return nil
}
func (p *c11app) ReadFrom(r io.Reader) (int64, error) {
	buf := make([]byte, varint.UvarintSize(uint64(p.code))+1)
	n, err := io.ReadFull(r, buf)
	if err != nil {
		return int64(n), err
	}
	return int64(n), p.UnmarshalBinary(buf)
}

// C11 ("for any collection of protocols, known or unknown ... decoding returns
// metadata equal to the original"), across a history: a component derives its
// own context from the default one — for a code unknown to the default
// context, or overriding a built-in transport — and afterwards the default
// context encodes and decodes exactly as before: the code stays unknown there
// (decodes as *Unknown, round-trips), built-in transports stay what they were.
func VerifC11_DerivedContextLeavesDefaultAlone() {
	override := verif_Bool("derivedContextOverridesBuiltIn")
	code := multicodec.Code(0x3012)
	if override {
		code = multicodec.TransportIpfsGatewayHttp
	}
	pl := verif_Bytes("payload", verif_Choose("payloadLen", 0, 2))
	enc := append(varint.ToUvarint(uint64(0x3012)), varint.ToUvarint(uint64(len(pl)))...)
	enc = append(enc, pl...)
	unk := &Unknown{Code: 0x3012, Payload: enc}
	roundTrip := func() {
		orig := Default.New(unk, &Bitswap{}, &IpfsGatewayHttp{})
		b, err := orig.MarshalBinary()
		verif_Assert(err == nil, "encoding succeeds")
		dec := Default.New()
		derr := dec.UnmarshalBinary(b)
		verif_Assert(derr == nil, "own encoding decodes in the default context")
		if derr != nil {
			return
		}
		verif_Assert(orig.Equal(dec), "decoded metadata equals the original")
		_, isUnknown := dec.Get(0x3012).(*Unknown)
		verif_Assert(isUnknown, "a code the default context does not know decodes as an unknown protocol")
		_, isGateway := dec.Get(multicodec.TransportIpfsGatewayHttp).(*IpfsGatewayHttp)
		verif_Assert(isGateway, "a built-in transport decodes as itself")
	}
	roundTrip()
	derived := Default.WithProtocol(code, func() Protocol { return &c11app{code: code} })
	verif_Reach("derived")
	roundTrip()
	// the derived context knows the protocol
	app := derived.New(&c11app{code: code, on: true}, &Bitswap{})
	b, err := app.MarshalBinary()
	verif_Assert(err == nil, "encoding in the derived context succeeds")
	dec := derived.New()
	verif_Assert(dec.UnmarshalBinary(b) == nil, "and decodes there")
	got, ok := dec.Get(code).(*c11app)
	verif_Assert(ok && got.on, "as the protocol registered in the derived context")
}

// C11 for single protocols (the Protocol interface is public: applications
// decode one protocol at a time too): each protocol decodes from its own
// encoding to an equal value, through UnmarshalBinary and through ReadFrom
// alike; the metadata value lists its protocol IDs in encoding order; a
// protocol refuses the encoding of another protocol.
func VerifC11_SingleProtocolRoundTrip() {
	p := c11mkProto(0)
	enc, err := p.p.MarshalBinary()
	verif_Assert(err == nil && bytes.Equal(enc, p.enc), "a protocol encodes as ID followed by its payload")
	var fresh Protocol
	switch p.p.(type) {
	case *Bitswap:
		fresh = &Bitswap{}
	case *IpfsGatewayHttp:
		fresh = &IpfsGatewayHttp{}
	case *GraphsyncFilecoinV1:
		fresh = &GraphsyncFilecoinV1{}
	default:
		fresh = &Unknown{}
	}
	viaReader := verif_Bool("decodedThroughReadFrom")
	if viaReader {
		n, rerr := fresh.ReadFrom(bytes.NewBuffer(append(append([]byte{}, enc...), 0x7f)))
		verif_Assert(rerr == nil && n == int64(len(enc)), "ReadFrom consumes exactly the protocol's encoding")
	} else {
		if u, unknown := p.p.(*Unknown); unknown {
			// (observed on the pinned tree, outside what C11 states — the property is about
			// the metadata encoding, which is read through a bytes.Buffer —: Unknown's own
			// UnmarshalBinary reads through a bytes.Reader and therefore reports io.EOF for
			// an unknown protocol with an EMPTY payload; see DESIGN §9, observations)
			verif_Assume(len(u.Payload) > varint.UvarintSize(uint64(u.Code))+1)
		}
		verif_Assert(fresh.UnmarshalBinary(enc) == nil, "a protocol decodes from its own encoding")
	}
	verif_Reach("decoded")
	verif_Assert(fresh.ID() == p.p.ID(), "the decoded protocol has the ID that was encoded")
	again, aerr := fresh.MarshalBinary()
	verif_Assert(aerr == nil && bytes.Equal(again, enc), "the decoded protocol equals the original (it re-encodes to the same bytes)")
	if g, ok := p.p.(*GraphsyncFilecoinV1); ok {
		h := fresh.(*GraphsyncFilecoinV1)
		verif_Assert(h.PieceCID == g.PieceCID && h.VerifiedDeal == g.VerifiedDeal && h.FastRetrieval == g.FastRetrieval, "graphsync fields are preserved")
	}
	// the encoding of another protocol is refused by the known transports
	other := varint.ToUvarint(0x3fff)
	other = append(other, 0)
	if _, unknown := p.p.(*Unknown); !unknown {
		verif_Assert(fresh.UnmarshalBinary(other) != nil, "a known transport refuses the encoding of another protocol")
	}
	// listing
	q := c11mkProto(1)
	md := Default.New(p.p, q.p)
	_, merr := md.MarshalBinary()
	verif_Assert(merr == nil, "encoding succeeds")
	ids := md.Protocols()
	verif_Assert(len(ids) == 2 && md.Len() == 2, "the metadata lists every protocol")
	if len(ids) == 2 {
		verif_Assert(ids[0] <= ids[1] && (ids[0] == p.p.ID() || ids[0] == q.p.ID()) && (ids[1] == p.p.ID() || ids[1] == q.p.ID()), "in ascending ID order")
	}
}

// C11 (a decoded value is a value): a Metadata that was decoded is copied (it is
// a struct, passed and stored by value); decoding other bytes into the same
// variable afterwards leaves the copy as it was — still equal to its original,
// every protocol retrievable, re-encoding to the bytes it was decoded from.
func VerifC11_DecodedCopySurvivesReuseOfTheDecoder() {
	c11representativeCodes = true
	defer func() { c11representativeCodes = false }()
	mk := func() (Metadata, []byte) {
		k := verif_Choose("count", 1, 2)
		list := make([]Protocol, k)
		for i := 0; i < k; i++ {
			list[i] = c11mkProto(i).p
		}
		md := Default.New(list...)
		enc, err := md.MarshalBinary()
		verif_Assume(err == nil)
		return md, enc
	}
	origA, encA := mk()
	_, encB := mk()
	md := Default.New()
	verif_Assert(md.UnmarshalBinary(encA) == nil, "own encoding decodes")
	first := md // a copy of the decoded value
	derr := md.UnmarshalBinary(encB)
	verif_Reach("decoded again")
	_ = derr
	verif_Assert(first.Equal(origA), "the earlier decoded copy still equals its original")
	again, err := first.MarshalBinary()
	verif_Assert(err == nil && bytes.Equal(again, encA), "and re-encodes to the bytes it was decoded from")
	for _, id := range origA.Protocols() {
		verif_Assert(first.Get(id) != nil, "every protocol of it is still retrievable")
	}
}
