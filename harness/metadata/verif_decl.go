package metadata

// Body-less declarations of the harness primitives; the symbolic engine
// intercepts them by name. (Native replay uses verif_native.go.tmpl instead.)

func verif_Bool(label string) bool
func verif_U8(label string) uint8
func verif_U16(label string) uint16
func verif_U32(label string) uint32
func verif_U64(label string) uint64
func verif_Int(label string) int
func verif_Bytes(label string, n int) []byte
func verif_Str(label string, n int) string
func verif_Choose(label string, lo, hi int) int
func verif_Assume(cond bool)
func verif_Assert(cond bool, label string)
func verif_Reach(label string)
func verif_AllocCap(n int)
func verif_Symbolic() bool
func verif_Tier() int
func verif_Yield()
func verif_Quiesce()
func verif_Panics(f func()) bool
