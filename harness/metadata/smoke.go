package metadata

import "github.com/multiformats/go-varint"

func VerifSmoke_Varint() {
	n := verif_Choose("n", 0, 3)
	b := verif_Bytes("in", n)
	v, k, err := varint.FromUvarint(b)
	verif_Reach("decoded")
	if err == nil {
		verif_Assert(k >= 1 && k <= n, "consumed within input")
		verif_Assert(varint.UvarintSize(v) == k, "minimal encoding")
		out := varint.ToUvarint(v)
		verif_Assert(len(out) == k, "re-encode length")
		for i := range out {
			verif_Assert(out[i] == b[i], "re-encode bytes")
		}
	}
}
