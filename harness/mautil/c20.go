package mautil

import (
	"github.com/libp2p/go-libp2p/core/peer"
	"github.com/multiformats/go-multiaddr"
)

func c20ma(s string) multiaddr.Multiaddr {
	m, err := multiaddr.NewMultiaddr(s)
	verif_Assume(err == nil)
	return m
}

// C20 (c): CleanPeerAddrInfo drops exactly the nil entries.
func VerifC20_CleanPeerAddrInfo() {
	n := verif_Choose("entries", 0, 4)
	pool := []multiaddr.Multiaddr{c20ma("/ip4/1.1.1.1/tcp/1"), c20ma("/ip4/2.2.2.2/tcp/2"), c20ma("/ip4/3.3.3.3/tcp/3"), c20ma("/dns/d.example/tcp/4")}
	addrs := make([]multiaddr.Multiaddr, n)
	want := 0
	present := [4]bool{}
	for i := 0; i < n; i++ {
		if verif_Bool("isNil") {
			addrs[i] = nil
		} else {
			addrs[i] = pool[i]
			present[i] = true
			want++
		}
	}
	out := CleanPeerAddrInfo(peer.AddrInfo{ID: "p", Addrs: addrs})
	verif_Reach("cleaned")
	verif_Assert(len(out.Addrs) == want, "the result has one entry per non-nil input")
	for i := 0; i < 4; i++ {
		found := 0
		for _, a := range out.Addrs {
			verif_Assert(a != nil, "no nil entry remains")
			if a != nil && a.Equal(pool[i]) {
				found++
			}
		}
		if present[i] {
			verif_Assert(found == 1, "every non-nil input is kept exactly once")
		} else {
			verif_Assert(found == 0, "nothing is invented")
		}
	}
}

// C20 (d): address-list equality ignores order and distinguishes multisets.
func VerifC20_MultiaddrsEqual() {
	n := verif_Choose("entries", 0, 3)
	mk := func(label string) multiaddr.Multiaddr {
		// /ip4/10.0.0.x with a symbolic last byte
		m, err := multiaddr.NewMultiaddrBytes([]byte{0x04, 10, 0, 0, verif_U8(label)})
		verif_Assume(err == nil)
		return m
	}
	a := make([]multiaddr.Multiaddr, n)
	for i := range a {
		a[i] = mk("addr")
	}
	// b = a permuted by a symbolic permutation (rotation + optional swap)
	b := make([]multiaddr.Multiaddr, n)
	rot := 0
	if n > 0 {
		rot = verif_Choose("rotation", 0, n-1)
	}
	for i := range a {
		b[(i+rot)%n] = a[i]
	}
	if n >= 2 && verif_Bool("swapFirstTwo") {
		b[0], b[1] = b[1], b[0]
	}
	a2 := append([]multiaddr.Multiaddr{}, a...)
	verif_Assert(MultiaddrsEqual(a2, b), "a list equals any permutation of itself")
	verif_Reach("compared")
	if n > 0 {
		// replace one entry by a different address: the multisets differ unless it equals another swap
		c := append([]multiaddr.Multiaddr{}, a...)
		i := verif_Choose("changedIndex", 0, n-1)
		c[i] = mk("changed")
		same := true
		// multiset comparison by counting
		for _, x := range a {
			ca, cc := 0, 0
			for _, y := range a {
				if y.Equal(x) {
					ca++
				}
			}
			for _, y := range c {
				if y.Equal(x) {
					cc++
				}
			}
			if ca != cc {
				same = false
			}
		}
		a3 := append([]multiaddr.Multiaddr{}, a...)
		verif_Assert(MultiaddrsEqual(a3, c) == same, "lists are equal exactly when they hold the same addresses with the same multiplicities")
		verif_Assert(!MultiaddrsEqual(a3, c[:n-1]), "lists of different length are not equal")
	}
}

// C20 (e): HTTP-address selection keeps exactly addresses with http or https.
func VerifC20_FindHTTPAddrs() {
	pool := []struct {
		m    multiaddr.Multiaddr
		http bool
	}{
		{c20ma("/ip4/1.1.1.1/tcp/80/http"), true},
		{c20ma("/dns/x.example/tcp/443/https"), true},
		{c20ma("/ip4/1.1.1.1/tcp/80"), false},
		{c20ma("/dns/x.example/tcp/443/tls/http"), true},
		{c20ma("/ip4/1.1.1.1/udp/1/quic-v1"), false},
		// what maurl.FromURL produces for a URL with a path, and an address naming the peer
		{c20ma("/dns/x.example/tcp/443/https/http-path/ipni-provider"), true},
		{c20ma("/ip4/1.1.1.1/tcp/80/http/p2p/12D3KooWDGBNKP2MFMAvxW6LqMfUJYHkiUBQvzwqsAEKwPKqTzgQ"), true},
		// an http-path component alone does not make an HTTP address
		{c20ma("/dns/x.example/tcp/4002/ws/http-path/p2p%2Ffeed"), false},
		{nil, false},
	}
	n := verif_Choose("entries", 0, 3)
	var in []multiaddr.Multiaddr
	var want []multiaddr.Multiaddr
	for i := 0; i < n; i++ {
		k := verif_Choose("kind", 0, len(pool)-1)
		in = append(in, pool[k].m)
		if pool[k].http {
			want = append(want, pool[k].m)
		}
	}
	out := FindHTTPAddrs(in)
	verif_Reach("selected")
	verif_Assert(len(out) == len(want), "exactly the addresses containing http or https are kept")
	if len(out) == len(want) {
		for i := range want {
			verif_Assert(out[i].Equal(want[i]), "selection preserves order")
		}
	}
}

// C20 (e): public filtering over all IPv4 addresses (4 symbolic bytes) and DNS names.
func VerifC20_FilterPublic() {
	b := verif_Bytes("ipv4", 4)
	ip, err := multiaddr.NewMultiaddrBytes([]byte{0x04, b[0], b[1], b[2], b[3], 0x06, 0, 80})
	verif_Assume(err == nil)
	in := []multiaddr.Multiaddr{nil, ip, c20ma("/dns/localhost/tcp/80"), c20ma("/dns/example.com/tcp/80"), c20ma("/ip6/::1/tcp/80"), c20ma("/ip6/2001:4860:4860::8888/tcp/80")}
	out := FilterPublic(in)
	verif_Reach("filtered")
	private := b[0] == 10 || (b[0] == 172 && b[1]&0xf0 == 16) || (b[0] == 192 && b[1] == 168) ||
		b[0] == 127 || (b[0] == 169 && b[1] == 254) || (b[0] == 100 && b[1]&0xc0 == 64)
	unspecified := b[0] == 0 && b[1] == 0 && b[2] == 0 && b[3] == 0
	hasIP, hasLocalhost, hasExample, hasLoop6, hasPub6 := false, false, false, false, false
	for _, a := range out {
		if a == nil {
			continue // nil entries pass through FilterPublic untouched (pinned by the repo's own test); dropping nils is CleanPeerAddrInfo's job
		}
		switch {
		case a.Equal(ip):
			hasIP = true
		case a.Equal(in[2]):
			hasLocalhost = true
		case a.Equal(in[3]):
			hasExample = true
		case a.Equal(in[4]):
			hasLoop6 = true
		case a.Equal(in[5]):
			hasPub6 = true
		}
	}
	if private || unspecified {
		verif_Assert(!hasIP, "loopback, private, link-local, shared and unspecified IPv4 addresses are never returned")
	}
	verif_Assert(!hasLocalhost && !hasLoop6, "localhost and IPv6 loopback are never returned")
	verif_Assert(hasExample && hasPub6, "public DNS names and public IPv6 addresses are kept")
	if b[0] == 8 || b[0] == 1 || (b[0] == 172 && b[1] == 15) || (b[0] == 192 && b[1] == 167) {
		verif_Assert(hasIP, "public IPv4 addresses are kept")
	}
}
