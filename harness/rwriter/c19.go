package rwriter

import (
	"bytes"
	"context"
	"errors"
	"fmt"
	"io"
	"net/http"
	"net/url"

	"github.com/ipni/go-libipni/apierror"
	"github.com/ipni/go-libipni/find/client"
	"github.com/ipni/go-libipni/find/model"
	"github.com/libp2p/go-libp2p/core/peer"
	"github.com/multiformats/go-multihash"
)

// recorder is an http.ResponseWriter + Flusher that records what is written.
type c19rec struct {
	hdr     http.Header
	status  int
	writes  [][]byte
	flushes int
	// number of writes completed when each flush happened
	flushAt []int
}

func (r *c19rec) Header() http.Header { return r.hdr }
func (r *c19rec) Write(b []byte) (int, error) {
	r.writes = append(r.writes, append([]byte{}, b...))
	return len(b), nil
}
func (r *c19rec) WriteHeader(s int) { r.status = s }
func (r *c19rec) Flush()            { r.flushes++; r.flushAt = append(r.flushAt, len(r.writes)) }
func (r *c19rec) body() []byte {
	var out []byte
	for _, w := range r.writes {
		out = append(out, w...)
	}
	return out
}

func c19mh() multihash.Multihash {
	mh, err := multihash.Encode([]byte{0xaa, 0xbb}, multihash.IDENTITY)
	verif_Assume(err == nil)
	return mh
}

func c19results(n int) []model.ProviderResult {
	out := make([]model.ProviderResult, n)
	for i := range out {
		out[i] = model.ProviderResult{
			ContextID: verif_Bytes("contextID", verif_Choose("contextIDLen", 0, 1+2*verif_Tier())),
			Metadata:  verif_Bytes("metadata", verif_Choose("metadataLen", 0, 1+2*verif_Tier())),
			// a valid peer ID (identity multihash of one symbolic byte): real JSON spells peer IDs as text
			Provider: &peer.AddrInfo{ID: peer.ID([]byte{0x00, 0x01, verif_U8("providerID")})},
		}
	}
	return out
}

// the server side of a find endpoint built on the response writer
// c19opts: further options the server passes to the response writer
var c19opts []Option

func c19serve(w http.ResponseWriter, r *http.Request, results []model.ProviderResult, preferJson bool) {
	rw, err := New(w, r, append([]Option{WithPreferJson(preferJson)}, c19opts...)...)
	if err == nil {
		pw := NewProviderResponseWriter(rw)
		for _, pr := range results {
			if err = pw.WriteProviderResult(pr); err != nil {
				break
			}
		}
		if err == nil {
			err = pw.Close()
		}
	}
	if err != nil {
		var ae *apierror.Error
		status := http.StatusInternalServerError
		if errors.As(err, &ae) {
			status = ae.Status()
		}
		w.WriteHeader(status)
		_, _ = w.Write(apierror.EncodeError(err))
	}
}

type c19rt struct {
	results    []model.ProviderResult
	preferJson bool
	rec        *c19rec
	accept     []string
}

func (t *c19rt) RoundTrip(req *http.Request) (*http.Response, error) {
	t.rec = &c19rec{hdr: http.Header{}, status: http.StatusOK}
	sreq := &http.Request{Method: req.Method, URL: req.URL, Header: http.Header{}}
	if t.accept == nil {
		// the request as the client made it
		for k, vs := range req.Header {
			for _, v := range vs {
				sreq.Header.Add(k, v)
			}
		}
	}
	for _, a := range t.accept {
		sreq.Header.Add("Accept", a)
	}
	c19serve(t.rec, sreq, t.results, t.preferJson)
	return &http.Response{StatusCode: t.rec.status, Body: io.NopCloser(bytes.NewReader(t.rec.body())), Header: t.rec.hdr}, nil
}

// C19: what the writer emits for a multihash request is what the find client
// returns (same results, same order); an empty result set is 404 on the wire
// and an empty response without error at the client.
func VerifC19_WriterToClient() {
	n := verif_Choose("results", 0, 2+verif_Tier())
	results := c19results(n)
	// accept == nil: the server sees the library client's own request headers;
	// otherwise an intermediary rewrote the Accept header. The server helper is
	// configured with or without the JSON preference.
	rt := &c19rt{results: results, preferJson: true, accept: [][]string{nil, {"application/json"}, {"*/*"}, {"text/html, application/json;q=0.9"}}[verif_Choose("accept", 0, 3)]}
	if rt.accept == nil {
		rt.preferJson = verif_Bool("serverPrefersJSON") // the library's own client against either server configuration
	}
	c, err := client.New("http://indexer.example", client.WithClient(&http.Client{Transport: rt}))
	verif_Assume(err == nil)
	mh := c19mh()
	resp, ferr := c.Find(context.Background(), mh)
	verif_Reach("client returned")
	verif_Assert(ferr == nil && resp != nil, "the find client succeeds against the writer")
	if ferr != nil || resp == nil {
		return
	}
	if n == 0 {
		verif_Assert(rt.rec.status == http.StatusNotFound, "an empty result set is not-found on the wire")
		verif_Assert(len(resp.MultihashResults) == 0, "an empty result set is an empty response, without error, at the client")
		// the caller owns the response it was given (it may merge other results into
		// it): the next not-found lookup is empty all the same
		resp.MultihashResults = append(resp.MultihashResults, model.MultihashResult{Multihash: mh})
		again, aerr := c.Find(context.Background(), mh)
		verif_Assert(aerr == nil && again != nil && len(again.MultihashResults) == 0, "every not-found lookup returns an empty response, whatever the caller did with an earlier one")
		return
	}
	verif_Assert(rt.rec.status == http.StatusOK && rt.rec.hdr.Get("Content-Type") == "application/json", "JSON mode: status 200 and JSON content type")
	verif_Assert(len(rt.rec.writes) == 1, "JSON mode: nothing is written until Close, then one document")
	verif_Assert(len(resp.MultihashResults) == 1 && bytes.Equal(resp.MultihashResults[0].Multihash, mh), "the response is for the requested multihash")
	if len(resp.MultihashResults) != 1 {
		return
	}
	// a client is used for many lookups: the next one works like the first
	resp2, ferr2 := c.Find(context.Background(), mh)
	verif_Assert(ferr2 == nil && resp2 != nil && len(resp2.MultihashResults) == 1 && len(resp2.MultihashResults[0].ProviderResults) == n, "a second lookup on the same client obtains the same results")
	got := resp.MultihashResults[0].ProviderResults
	verif_Assert(len(got) == n, "the client obtains as many results as were written")
	if len(got) == n {
		for i := range got {
			verif_Assert(got[i].Provider != nil && got[i].Equal(results[i]), "the client obtains the same results in the same order")
		}
	}
}

// C19: streaming mode: one complete result per line, flushed per result.
func VerifC19_Streaming() {
	n := verif_Choose("results", 0, 2+verif_Tier())
	results := c19results(n)
	rec := &c19rec{hdr: http.Header{}, status: http.StatusOK}
	accept := []string{"application/x-ndjson", "application/json, application/x-ndjson", "*/*"}[verif_Choose("accept", 0, 2)]
	u, err := url.Parse("http://indexer.example/multihash/" + c19mh().B58String())
	verif_Assume(err == nil)
	req := &http.Request{Method: http.MethodGet, URL: u, Header: http.Header{"Accept": {accept}}}
	c19serve(rec, req, results, false)
	verif_Reach("served")
	if n == 0 {
		verif_Assert(rec.status == http.StatusNotFound, "streaming: an empty result set is not-found")
		return
	}
	verif_Assert(rec.status == http.StatusOK && rec.hdr.Get("Content-Type") == "application/x-ndjson", "streaming mode is chosen when ndjson (or anything, without JSON preference) is acceptable")
	verif_Assert(len(rec.writes) == n && rec.flushes == n, "streaming: exactly one write and one flush per result")
	for i := 0; i < n && i < len(rec.writes) && i < len(rec.flushAt); i++ {
		w := rec.writes[i]
		verif_Assert(len(w) > 0 && w[len(w)-1] == '\n', "streaming: each result is one complete line")
		verif_Assert(rec.flushAt[i] == i+1, "streaming: each result is flushed before the next is written")
		var pr model.ProviderResult
		verif_Assert(c19decodeLine(w, &pr) && pr.Provider != nil && pr.Equal(results[i]), "streaming: each line decodes to the result that was written, in order")
	}
}

// C19 (configured resource types): a server that names its CID or multihash
// path element differently serves exactly those paths: the option for one
// resource type does not change the other, the replaced default is refused.
func VerifC19_ConfiguredPathTypes() {
	cidElem := []string{"", "c"}[verif_Choose("cidPathType", 0, 1)]
	mhElem := []string{"", "mh"}[verif_Choose("multihashPathType", 0, 1)]
	var opts []Option
	wantCid, wantMh := "cid", "multihash"
	if cidElem != "" {
		opts = append(opts, WithCidPathType(cidElem))
		wantCid = cidElem
	}
	if mhElem != "" {
		opts = append(opts, WithMultihashPathType(mhElem))
		wantMh = mhElem
	}
	if verif_Bool("optionsInReverseOrder") && len(opts) == 2 {
		opts[0], opts[1] = opts[1], opts[0]
	}
	elem := []string{"cid", "multihash", "c", "mh"}[verif_Choose("requestedPathElement", 0, 3)]
	key := c19mh().B58String()
	isCid := elem == wantCid
	if isCid {
		key = "bafkqaaa"
	}
	rec := &c19rec{hdr: http.Header{}, status: http.StatusOK}
	req := &http.Request{Method: http.MethodGet, URL: &url.URL{Path: "/" + elem + "/" + key}, Header: http.Header{"Accept": {"application/json"}}}
	rw, err := New(rec, req, opts...)
	verif_Reach("returned")
	if elem == wantCid || elem == wantMh {
		verif_Assert(err == nil && rw != nil, "a request on a configured resource type is served")
		if rw != nil {
			verif_Assert(rw.PathType() == elem, "the writer reports the resource type of the request")
			if !isCid {
				verif_Assert(bytes.Equal(rw.Multihash(), c19mh()), "the key is read as what its resource type says")
			}
		}
	} else {
		verif_Assert(err != nil && rw == nil, "a resource type the server is not configured for is refused")
	}
	// options belong to the call they were given to: another endpoint of the same
	// process, built without options, behaves as documented for the defaults
	for _, c := range []struct {
		path string
		ok   bool
	}{{"/multihash/" + c19mh().B58String(), true}, {"/cid/bafkqaaa", true}, {"/mh/" + c19mh().B58String(), false}, {"/c/bafkqaaa", false}} {
		rec2 := &c19rec{hdr: http.Header{}, status: http.StatusOK}
		req2 := &http.Request{Method: http.MethodGet, URL: &url.URL{Path: c.path}, Header: http.Header{"Accept": {"*/*"}}}
		rw2, err2 := New(rec2, req2)
		if c.ok {
			verif_Assert(err2 == nil && rw2 != nil, "a later endpoint without options serves the default resource types")
			if rw2 != nil {
				verif_Assert(rw2.IsND(), "and, without the JSON preference, answers */* with streaming")
			}
		} else {
			verif_Assert(err2 != nil, "and refuses the resource types another endpoint was configured with")
		}
	}
	rec3 := &c19rec{hdr: http.Header{}, status: http.StatusOK}
	_, err3 := New(rec3, &http.Request{Method: http.MethodGet, URL: &url.URL{Path: "/multihash/" + c19mh().B58String()}, Header: http.Header{}}, WithPreferJson(true))
	verif_Assert(err3 == nil, "an endpoint with the JSON preference accepts a missing Accept header")
	rec4 := &c19rec{hdr: http.Header{}, status: http.StatusOK}
	_, err4 := New(rec4, &http.Request{Method: http.MethodGet, URL: &url.URL{Path: "/multihash/" + c19mh().B58String()}, Header: http.Header{}})
	verif_Assert(err4 != nil, "and a later endpoint without it still requires the header")
}

// C19: bad Accept headers, resource types and keys give a 400 API error, never a panic.
func VerifC19_BadRequests() {
	type acc struct {
		vals                 []string
		malformed, supported bool
	}
	accepts := []acc{
		{nil, false, false},
		{[]string{""}, true, false},
		{[]string{"application/json"}, false, true},
		{[]string{"text/html"}, false, false},
		{[]string{"application/json;;=="}, true, true},
		{[]string{"a/b, */*"}, false, true},
		{[]string{"application/x-ndjson", "bogus/"}, true, true}, // a supported type and a malformed element
		{[]string{"bogus/, */*"}, true, true},
		{[]string{"application/json; q=0.9, application/x-ndjson"}, false, true},
	}
	type pth struct {
		p     string
		valid bool
	}
	paths := []pth{
		{"/multihash/" + c19mh().B58String(), true}, {"/multihash/" + c19mh().HexString(), true}, {"/cid/bafkqaaa", true},
		{"/cid/notacid", false}, {"/multihash/%%%", false}, {"/multihash/", false}, {"/", false}, {"", false}, {"/other/xyz", false},
		{"/multihash/zzzz0OIl", false},
		// the resource type is the second-to-last path element, wherever the handler is mounted
		{"/a/b/c/multihash/11", true}, {"/v1/multihash/" + c19mh().B58String(), true}, {"/ipni/v1/cid/bafkqaaa", true},
		{"/multihash/v1/" + c19mh().B58String(), false},
		// keys that decode as base58 or hex but are not a well-formed multihash
		{"/multihash/abc", false}, {"/multihash/1220", false}, {"/multihash/" + c19mh().HexString() + "00", false},
		{"/multihash/" + c19mh().HexString()[:len(c19mh().HexString())-2], false},
	}
	ac := accepts[verif_Choose("accept", 0, len(accepts)-1)]
	pt := paths[verif_Choose("path", 0, len(paths)-1)]
	preferJson := verif_Bool("preferJson")
	rec := &c19rec{hdr: http.Header{}, status: http.StatusOK}
	req := &http.Request{Method: http.MethodGet, URL: &url.URL{Path: pt.p}, Header: http.Header{}}
	for _, a := range ac.vals {
		req.Header.Add("Accept", a)
	}
	rw, err := New(rec, req, WithPreferJson(preferJson))
	verif_Reach("returned")
	if err != nil {
		var ae *apierror.Error
		verif_Assert(errors.As(err, &ae) && ae.Status() == http.StatusBadRequest, "a rejected request is a 400 API error")
		verif_Assert(rw == nil, "no writer on error")
	} else {
		verif_Assert(rw != nil && rw.StatusCode() == http.StatusOK && len(rw.Multihash()) > 0, "an accepted request yields a writer for a well-formed multihash")
		if len(ac.vals) == 0 {
			verif_Assert(preferJson, "a missing Accept header is accepted only with the JSON preference")
		}
	}
	if ac.malformed {
		verif_Assert(err != nil, "a malformed Accept header is answered with a 400 API error, whatever else it names")
	}
	if len(ac.vals) > 0 && !ac.supported {
		verif_Assert(err != nil, "an Accept header naming no supported media type is answered with a 400 API error")
	}
	if !pt.valid {
		verif_Assert(err != nil, "a request whose key or resource type is malformed is answered with a 400 API error")
	}
	if pt.valid && !ac.malformed && (ac.supported || (len(ac.vals) == 0 && preferJson)) {
		verif_Assert(err == nil, "a valid multihash or CID request with an acceptable Accept header is served")
	}
}

type c19finder struct {
	found []bool
	calls int
}

func (f *c19finder) Find(ctx context.Context, m multihash.Multihash) (*model.FindResponse, error) {
	i := int(m[len(m)-1])
	f.calls++
	if !f.found[i] {
		if i%2 == 0 {
			return nil, apierror.New(errors.New("not found"), http.StatusNotFound)
		}
		return &model.FindResponse{}, nil
	}
	return &model.FindResponse{MultihashResults: []model.MultihashResult{{Multihash: m}}}, nil
}

// C19 (d): FindBatch concatenates per-multihash results in order and skips not-found.
func VerifC19_FindBatch() {
	n := verif_Choose("multihashes", 0, 3)
	f := &c19finder{found: make([]bool, n)}
	var mhs []multihash.Multihash
	var want []multihash.Multihash
	for i := 0; i < n; i++ {
		mh, err := multihash.Encode([]byte{0x01, byte(i)}, multihash.IDENTITY)
		verif_Assume(err == nil)
		mhs = append(mhs, mh)
		f.found[i] = verif_Bool("found")
		if f.found[i] {
			want = append(want, mh)
		}
	}
	resp, err := client.FindBatch(context.Background(), f, mhs)
	verif_Reach("returned")
	verif_Assert(err == nil && resp != nil && f.calls == n, "a batch asks once per multihash and succeeds")
	if resp != nil {
		verif_Assert(len(resp.MultihashResults) == len(want), "not-found multihashes are skipped")
		for i := range want {
			if i < len(resp.MultihashResults) {
				verif_Assert(bytes.Equal(resp.MultihashResults[i].Multihash, want[i]), "results are concatenated in request order")
			}
		}
	}
}

// C19: API errors keep status and message through encode/decode.
func VerifC19_APIError() {
	status := []int{0, 400, 404, 500}[verif_Choose("status", 0, 3)]
	msg := verif_Str("message", verif_Choose("messageLen", 1, 2))
	var e error = errors.New(msg)
	if status != 0 {
		e = apierror.New(e, status)
	}
	if verif_Bool("wrappedByCaller") {
		// handlers add context with %w before answering: the API error is then
		// somewhere in the chain, not the outermost error
		e = fmt.Errorf("lookup: %w", e)
		msg = "lookup: " + msg
	}
	back := apierror.DecodeError(apierror.EncodeError(e))
	verif_Reach("decoded")
	verif_Assert(back != nil && back.Error() == msg, "the message survives encode/decode")
	var ae *apierror.Error
	if status != 0 {
		verif_Assert(errors.As(back, &ae) && ae.Status() == status, "the status survives encode/decode")
	} else {
		verif_Assert(!errors.As(back, &ae), "an error without status decodes without status")
	}
	verif_Assert(apierror.DecodeError(apierror.EncodeError(nil)) == nil, "no error encodes to nothing")
}

// C19 (API errors keep their status and message across the wire, plain-text
// form): what http.Error puts on the wire for an API error — the message
// followed by a newline, or just a newline for a status-only error — is read
// back by FromResponse as the same status and message.
func VerifC19_FromResponse() {
	status := []int{0, 400, 404, 429, 500}[verif_Choose("status", 0, 4)]
	msg := []string{"", "not found", "bad key"}[verif_Choose("message", 0, 2)]
	trail := []string{"", "\n", " \r\n"}[verif_Choose("trailingWhitespace", 0, 2)]
	err := apierror.FromResponse(status, []byte(msg+trail))
	verif_Reach("decoded")
	if status == 0 && msg == "" {
		verif_Assert(err == nil, "no status and a blank body is no error")
		return
	}
	verif_Assert(err != nil, "a status or a message is an error")
	if err == nil {
		return
	}
	var ae *apierror.Error
	if status != 0 {
		verif_Assert(errors.As(err, &ae) && ae.Status() == status, "the status survives")
	} else {
		verif_Assert(!errors.As(err, &ae), "no status, no API error")
	}
	if msg != "" {
		verif_Assert(err.Error() == msg, "the message survives, without the transport's trailing whitespace")
	} else if ae != nil {
		// a status-only error: the same as apierror.New(nil, status)
		same := apierror.New(nil, status)
		verif_Assert(ae.Error() == same.Error() && ae.Text() == same.Text() && errors.Unwrap(ae) == nil, "a status-only error stays status-only (blank body)")
	}
}
