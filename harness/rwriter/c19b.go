package rwriter

import (
	"encoding/json"

	"github.com/ipni/go-libipni/find/model"
)

func c19decodeLine(b []byte, pr *model.ProviderResult) bool {
	return json.Unmarshal(b, pr) == nil
}
