#!/bin/sh
# run every registered check of one tier against /repo; prints one line per property
tier=${1:-quick}
cd "$(dirname "$0")/.."
rc=0
for id in $(python3 -c "import json;print(' '.join(c['property_id'] for c in json.load(open('MANIFEST.json'))['checks']))"); do
  printf '%s ' "$id"; date +%T
  ./check "$id" --tier "$tier" 2>&1 | tail -1
  [ "${PIPESTATUS:-0}" = 0 ] || rc=1
done
exit $rc
