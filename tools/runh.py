import subprocess,json,os,tempfile,shutil,sys
# usage: runh.py <harnessdir> <pkg> <funcs> [extra gosym args...]
sys_argv=sys.argv
sys.argv=['x']
__file__="/verif/check"
exec(open("/verif/check").read().split("if __name__")[0])
hd,pkg,funcs=sys_argv[1:4]
tmp=tempfile.mkdtemp()
d=stage_symbolic(os.path.join('/verif',hd),tmp)
e=go_env_repo()
for k in ('GOSYM_DEBUG','GOSYM_SMTLOG'):
    if k in os.environ: e[k]=os.environ[k]
cmd=[GOSYM,'-pkg',pkg,'-harness',d,'-funcs',funcs,'-out','/tmp/runh.json']+sys_argv[4:]
cfgp=os.path.join('/verif',hd,'cfg.json')
if os.path.exists(cfgp): cmd+=['-cfg',cfgp]
subprocess.run(cmd,env=e)
shutil.rmtree(tmp)
for h in json.load(open('/tmp/runh.json'))['harnesses']:
    for k in ['harness','paths','path_ends','obligations','inconclusive','unsupported','init_failures','cuts','truncated','solver_queries','solver_seconds','wall_seconds','instructions_interpreted','reached']:
        print(' ',k,h.get(k))
    for v in (h['violations'] or [])[:8]: print('  VIOL',v['kind'],v['label'],v['pos'],v['msg'][:200],[ (n['label'],n['vals']) for n in v['nondet']][:10])
