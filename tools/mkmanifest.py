#!/usr/bin/env python3
"""Regenerate MANIFEST.json from checks.json (+ not_applicable.json)."""
import json, os
ROOT = os.path.dirname(os.path.dirname(os.path.abspath(__file__)))
reg = json.load(open(os.path.join(ROOT, "checks.json")))
na = json.load(open(os.path.join(ROOT, "not_applicable.json")))
props = [json.loads(l)["id"] for l in open(os.path.join(ROOT, "properties.jsonl"))]
checks = []
for pid in props:
    if pid not in reg:
        continue
    s = reg[pid]
    checks.append({
        "property_id": pid,
        "quick_cmd": "./check %s --tier quick" % pid,
        "thorough_cmd": "./check %s --tier thorough" % pid,
        "evidence_file": "/verif/evidence/%s.json" % pid,
        "replay_cmd_template": "./check %s --replay {path}" % pid,
        "engine": "gosym",
        "level_claimed": {
            "category": "model_checking",
            "text": "Bounded verification by symbolic execution of the real SSA with z3: " + s["claim"],
            "design_ref": "DESIGN.md §5 " + pid,
        },
        "level_note": "Holds for all values within the stated bounds only. Trusted: go/ssa lowering, the gosym interpreter, z3, and these environment contracts: " + "; ".join(s.get("assumptions", [])) + ". Outside the claim: " + "; ".join(s.get("outside", [])),
        "technique": s.get("technique", "SMT-based bounded symbolic execution of Go SSA (gosym + z3), counterexamples replayed natively"),
    })
listed = set(c["property_id"] for c in checks)
not_app = [{"property_id": p, "reason": na[p]} for p in props if p not in listed]
for p in props:
    if p not in listed and p not in na:
        raise SystemExit("property %s neither claimed nor in not_applicable.json" % p)
m = {
    "version": 1,
    "setup_cmd": "./check --build",
    "hooks": {
        "guard": "verif",
        "enable": "no hooks are compiled into /repo: harnesses are injected with go/packages overlays (symbolic run) and go test -overlay (native replay); the build tag 'verif' is reserved",
        "baseline_off_cmd": "cd /repo && GOFLAGS=-mod=mod GOPROXY=off go test -json -vet=off -count=1 -timeout 25m ./...",
        "source_commits": [],
        "add_only": True,
    },
    "engines": [{"name": "gosym", "path": "/verif/engine", "serves_properties": sorted(listed),
                 "kind_free_text": "hand-written symbolic executor for Go SSA (go/ssa from x/tools v0.29.0) emitting SMT-LIB2 bit-vector queries to z3 -in; path forking by re-execution; native replay of counterexamples with go test -overlay"}],
    "checks": checks,
    "not_applicable": not_app,
    "notes": "Exit 2 + INCONCLUSIVE lines mean the solver-based run could not decide (unsupported construct, unknown, bound hit, unconfirmed counterexample); it is never reported as success. Known findings: KNOWN_FINDINGS.json.",
}
json.dump(m, open(os.path.join(ROOT, "MANIFEST.json"), "w"), indent=1)
print("MANIFEST.json: %d checks, %d not applicable" % (len(checks), len(not_app)))
