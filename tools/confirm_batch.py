#!/usr/bin/env python3
"""confirm_batch.py <k> [<k>...]: confirm every delivered seeded change /tmp/mut_<prop>/patch<k>.diff
that is not yet stored under /verif/seeded/<prop>-<k>/ (see confirm_mut.py)."""
import json, os, subprocess, sys
ROOT = os.path.dirname(os.path.dirname(os.path.abspath(__file__)))
ks = sys.argv[1:]
props = [json.loads(l)["id"] for l in open(os.path.join(ROOT, "properties.jsonl"))]
for p in props:
    for k in ks:
        md = "/tmp/mut_%s" % p
        if not (os.path.exists("%s/patch%s.diff" % (md, k)) and os.path.exists("%s/demo%s_test.go" % (md, k)) and os.path.exists("%s/meta%s.txt" % (md, k))):
            continue
        if os.path.exists(os.path.join(ROOT, "seeded", "%s-%s" % (p, k), "meta.json")):
            continue
        r = subprocess.run([sys.executable, os.path.join(ROOT, "tools", "confirm_mut.py"), p, md, k], capture_output=True, text=True)
        last = (r.stdout.strip().splitlines() or ["?"])[-1]
        print(p, k, last, flush=True)
        if last != "CONFIRMED":
            print(r.stdout[-1500:], r.stderr[-500:])
