#!/usr/bin/env python3
"""confirm_mut.py <prop> <mutdir> <k>: confirm a seeded change in a scratch worktree:
 (a) builds and the pinned suite passes with it, (b) its demonstration fails with it,
 (c) the demonstration passes without it. On success stores it under /verif/seeded/<prop>-<k>/."""
import json, os, re, shutil, subprocess, sys
ROOT = os.path.dirname(os.path.dirname(os.path.abspath(__file__)))
prop, mutdir, k = sys.argv[1], sys.argv[2], sys.argv[3]
wt = "/tmp/wt_confirm"
env = dict(os.environ); env.update({"GOFLAGS": "-mod=mod", "GOPROXY": "off"})
for v in ("GOSUMDB", "GOTOOLCHAIN"): env.pop(v, None)
if not os.path.isdir(wt):
    subprocess.run(["git", "-C", "/repo", "worktree", "add", "-q", "--detach", wt, "HEAD"], check=True)
head = subprocess.run(["git","-C","/repo","rev-parse","HEAD"],capture_output=True,text=True).stdout.strip()
subprocess.run(["git", "-C", wt, "checkout", "-q", "--detach", head]); subprocess.run(["git", "-C", wt, "checkout", "--", "."]); subprocess.run(["git","-C",wt,"clean","-fdq"])
patch = os.path.join(mutdir, "patch%s.diff" % k); demo = os.path.join(mutdir, "demo%s_test.go" % k)
src = open(demo).read()
m = re.search(r"copy to:\s*([\w/.-]+)", src)
pkgdir = m.group(1).strip("/") if m else None
tests = re.findall(r"^func (Test\w+)\(", src, re.M)
def run(cmd):
    r = subprocess.run(cmd, cwd=wt, env=env, capture_output=True, text=True)
    return r.returncode, (r.stdout + r.stderr)[-1500:]
res = {}
rc, out = run(["git", "apply", patch]); assert rc == 0, out
rc, out = run(["go", "build", "./..."]); res["build_with_change"] = rc == 0
rc, out = run(["go", "test", "-vet=off", "-count=1", "./..."]); res["suite_with_change"] = rc == 0
if rc != 0: res["suite_output"] = out
shutil.copy(demo, os.path.join(wt, pkgdir, "zz_demo_test.go"))
pat = "^(" + "|".join(tests) + ")$"
rc, out = run(["go", "test", "-vet=off", "-count=1", "-run", pat, "./" + pkgdir]); res["demo_fails_with_change"] = rc != 0
run(["git", "checkout", "--", "."])
rc, out = run(["go", "test", "-vet=off", "-count=1", "-run", pat, "./" + pkgdir]); res["demo_passes_without_change"] = rc == 0
if rc != 0: res["demo_clean_output"] = out
os.remove(os.path.join(wt, pkgdir, "zz_demo_test.go"))
ok = all(res.get(x) for x in ("build_with_change", "suite_with_change", "demo_fails_with_change", "demo_passes_without_change"))
print(json.dumps(res, indent=1)); print("CONFIRMED" if ok else "NOT CONFIRMED")
if ok:
    d = os.path.join(ROOT, "seeded", "%s-%s" % (prop, k)); os.makedirs(d, exist_ok=True)
    shutil.copy(patch, os.path.join(d, "patch.diff")); shutil.copy(demo, os.path.join(d, "demo_test.go"))
    meta = {"property": prop, "demo_package_dir": pkgdir, "demo_tests": tests, "confirmed": res,
            "description": open(os.path.join(mutdir, "meta%s.txt" % k)).read() if os.path.exists(os.path.join(mutdir, "meta%s.txt" % k)) else "",
            "confirmation_commands": ["git apply patch.diff && go build ./... && go test -vet=off -count=1 ./...  (pass)",
                                      "cp demo_test.go %s/ && go test -run '%s' ./%s  (fails with the change, passes without)" % (pkgdir, pat, pkgdir)]}
    json.dump(meta, open(os.path.join(d, "meta.json"), "w"), indent=1)
