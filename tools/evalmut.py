#!/usr/bin/env python3
"""evalmut.py <property> <patch.diff> [--tier quick] [--repo DIR] : apply a seeded change to a
scratch worktree (or /repo), run the property's check against it, undo. Prints the verdict."""
import os, subprocess, sys, time
ROOT = os.path.dirname(os.path.dirname(os.path.abspath(__file__)))
prop, patch = sys.argv[1], os.path.abspath(sys.argv[2])
tier = "quick"
repo = "/tmp/wt_eval"
a = sys.argv[3:]
while a:
    if a[0] == "--tier": tier = a[1]; a = a[2:]
    elif a[0] == "--repo": repo = a[1]; a = a[2:]
    else: a = a[1:]
if repo != "/repo" and not os.path.isdir(repo):
    subprocess.run(["git", "-C", "/repo", "worktree", "add", "-q", "--detach", repo, "HEAD"], check=True)
subprocess.run(["git", "-C", repo, "checkout", "-q", "--detach", subprocess.run(["git","-C","/repo","rev-parse","HEAD"],capture_output=True,text=True).stdout.strip()], check=False)
subprocess.run(["git", "-C", repo, "checkout", "--", "."], check=True)
r = subprocess.run(["git", "-C", repo, "apply", patch], capture_output=True, text=True)
if r.returncode != 0:
    print("APPLY-FAILED", r.stderr[:500]); sys.exit(3)
env = dict(os.environ); env["VERIF_REPO"] = repo
t0 = time.time()
try:
    r = subprocess.run([os.path.join(ROOT, "check"), prop, "--tier", tier], capture_output=True, text=True, env=env, cwd=ROOT)
finally:
    subprocess.run(["git", "-C", repo, "checkout", "--", "."], check=True)
lines = [l for l in r.stdout.splitlines() if l.startswith(("VIOLATION", "  Verif", "INCONCLUSIVE", "OK ", "UNCONFIRMED", "KNOWN-FINDING"))]
print("exit=%d  %.0fs" % (r.returncode, time.time() - t0))
print("\n".join(lines[:14]))
