#!/usr/bin/env python3
"""Run every seeded change under /verif/seeded against its property's quick check (in a scratch
worktree of /repo) and write /verif/seeded/RESULTS.md."""
import json, os, subprocess, sys, time
ROOT = os.path.dirname(os.path.dirname(os.path.abspath(__file__)))
sd = os.path.join(ROOT, "seeded")
only = set(sys.argv[1:])
rows = []
prev = {}
rp = os.path.join(sd, "results.json")
if os.path.exists(rp):
    prev = json.load(open(rp))
for d in sorted(os.listdir(sd)):
    p = os.path.join(sd, d)
    if not os.path.isdir(p) or not os.path.exists(os.path.join(p, "patch.diff")):
        continue
    meta = json.load(open(os.path.join(p, "meta.json")))
    if only and d not in only and meta["property"] not in only:
        if d in prev:
            rows.append(prev[d])
        continue
    r = subprocess.run([sys.executable, os.path.join(ROOT, "tools", "evalmut.py"), meta["property"], os.path.join(p, "patch.diff")], capture_output=True, text=True)
    out = r.stdout
    first = out.splitlines()[0] if out else ""
    verdict = "MISSED (exit 0)"
    if "exit=1" in first: verdict = "caught (VIOLATION, replayed)"
    elif "exit=2" in first: verdict = "inconclusive (exit 2)"
    elif "APPLY-FAILED" in out: verdict = "patch does not apply"
    by = [l.strip() for l in out.splitlines() if l.startswith("  Verif")]
    rows.append({"id": d, "property": meta["property"], "verdict": verdict, "by": by[:2], "what": meta.get("description", "").strip().split("\n")[0][:200], "first": first})
    print(d, verdict, flush=True)
json.dump({r["id"]: r for r in rows}, open(rp, "w"), indent=1)
with open(os.path.join(sd, "RESULTS.md"), "w") as f:
    f.write("# Seeded changes and the checks that catch them\n\nEach change was written by an independent sub-agent that saw only the property text, and was confirmed here (builds, pinned suite passes with it, its demonstration fails with it and passes without). Verdicts are from `tools/evalmut.py <property> <patch>` (quick tier).\n\n| seeded change | property | verdict | caught by | what it changes |\n|---|---|---|---|---|\n")
    for r in sorted(rows, key=lambda r: r["id"]):
        f.write("| %s | %s | %s | %s | %s |\n" % (r["id"], r["property"], r["verdict"], "<br>".join(b.replace("|", "/")[:160] for b in r["by"]), r["what"].replace("|", "/")))
    n = len(rows); c = sum(1 for r in rows if r["verdict"].startswith("caught"))
    f.write("\n%d of %d seeded changes are caught by the registered quick checks.\n" % (c, n))
print("written")
